package smtp

import (
	"crypto/tls"
	"errors"
	"io"

	"github.com/emersion/go-sasl"
)

const verifB64 = "ABCDEFGHIJKLMNOPQRSTUVWXYZabcdefghijklmnopqrstuvwxyz0123456789+/"

// verifB64Encode: reference base64 (RFC 4648) encoder, written independently
// of encoding/base64, so that no reference decoder is needed.
func verifB64Encode(b []byte) string {
	out := []byte{}
	for i := 0; i < len(b); i += 3 {
		var v uint32
		n := 0
		for j := 0; j < 3; j++ {
			v <<= 8
			if i+j < len(b) {
				v |= uint32(b[i+j])
				n++
			}
		}
		out = append(out, verifB64[(v>>18)&63], verifB64[(v>>12)&63])
		if n > 1 {
			out = append(out, verifB64[(v>>6)&63])
		} else {
			out = append(out, '=')
		}
		if n > 2 {
			out = append(out, verifB64[v&63])
		} else {
			out = append(out, '=')
		}
	}
	return string(out)
}

// vsasl is a recording SASL server mechanism with a harness-chosen script.
type vsasl struct {
	calls     [][]byte
	nilCall   []bool
	steps     int      // number of challenges before the final verdict
	challenge [][]byte // challenge per step
	fail      bool     // final verdict
	failAt    int      // step at which to fail early (-1: never)
	finalData []byte   // "additional data with success": returned together with done == true
}

func (m *vsasl) Next(response []byte) ([]byte, bool, error) {
	i := len(m.calls)
	m.calls = append(m.calls, response)
	m.nilCall = append(m.nilCall, response == nil)
	if m.failAt == i {
		return nil, false, errors.New("verif: mechanism failed")
	}
	if i < m.steps {
		return m.challenge[i], false, nil
	}
	if m.fail {
		return nil, false, ErrAuthFailed
	}
	return m.finalData, true, nil
}

// verifC09gate: is AUTH reachable? TLS state, AllowInsecureAuth, backend kind
// and greeting state are harness inputs; the mechanism factory and the
// mechanism record every call.
func verifC09gate(tlsState int) {
	if tlsState != 0 {
		verifNoReach("C09.insecure")
	}
	allow := nondetBool()
	authBackend := nondetBool()
	greeted := nondetBool()
	m := &vsasl{failAt: -1}
	be := &vbackend{authSession: authBackend, mechs: []string{"XVERIF"}}
	factoryCalls := 0
	be.saslFn = func(_ *vsession, mech string) (sasl.Server, error) {
		factoryCalls++
		return m, nil
	}
	s, lg := verifServer(be)
	s.AllowInsecureAuth = allow
	ir := nondetBytes(2)
	line := "AUTH XVERIF " + verifB64Encode(ir) + "\r\n"
	if len(ir) == 0 {
		line = "AUTH XVERIF =\r\n"
	}
	in := ""
	if greeted {
		in = "EHLO c\r\n"
	}
	in += line + "NOOP\r\n"
	vc := &vconn{final: io.EOF, tlsFinal: io.EOF}
	var conn *Conn
	base := 0 // mechanism calls before the exchange under test
	switch tlsState {
	case 0: // plaintext
		vc.in = []byte(in)
		conn = newConn(vc, s)
	case 1: // implicit TLS
		s.TLSConfig = &tls.Config{}
		vc.tlsIn = []byte(in)
		conn = newConn(tls.Server(vc, s.TLSConfig), s)
	case 2: // after STARTTLS
		s.TLSConfig = &tls.Config{}
		plain := "EHLO p\r\n"
		if allow && authBackend && nondetBool() {
			// authenticated in plaintext already: the upgrade forgets it, even
			// when the backend's Logout of the plaintext session reports an error
			plain += "AUTH XVERIF =\r\n"
			base = 1
			if nondetBool() {
				be.logoutErr = verifErrBackend()
			}
		}
		vc.in = []byte(plain + "STARTTLS\r\n")
		vc.tlsIn = []byte(in)
		conn = newConn(vc, s)
	}
	s.handleConn(conn)
	out := vc.out
	if tlsState != 0 {
		out = vc.tlsOut
	}
	reps, wf := verifParseReplies(out)
	// (a failing Logout may be logged)
	verifAssert(wf && (lg.lines == 0 || be.logoutErr != nil), "C09.gate-replies")
	if !wf {
		return
	}
	secure := tlsState != 0
	// replies: [220 unless starttls] [ehlo] auth noop
	k := 0
	if tlsState != 2 {
		k = 1
	}
	advertised := false
	if greeted {
		for _, l := range reps[k].lines {
			if len(l) >= 4 && l[:4] == "AUTH" {
				advertised = true
			}
		}
		k++
	}
	verifAssert(len(reps) == k+2, "C09.gate-one-reply-each")
	if len(reps) != k+2 {
		return
	}
	ar := reps[k]
	verifObserve("c09gate", tlsState, allow, authBackend, greeted, ir, ar.code, advertised, factoryCalls, len(m.calls))
	verifAssert(reps[k+1].code == 250, "C09.command-mode-after-auth")
	switch {
	case !greeted:
		verifReach("C09.not-greeted")
		verifAssert(ar.code/100 == 5 && factoryCalls == base && len(m.calls) == base, "C09.auth-needs-greeting")
	case !secure && !allow:
		verifReach("C09.insecure")
		verifAssert(!advertised, "C09.auth-not-advertised-when-insecure")
		verifAssert(ar.code/100 == 5, "C09.auth-refused-when-insecure")
		verifAssert(factoryCalls == 0 && len(m.calls) == 0, "C09.mechanism-gets-nothing-when-insecure")
		verifAssert(!conn.didAuth, "C09.not-authenticated-when-insecure")
	case !authBackend:
		verifReach("C09.no-auth-backend")
		verifAssert(!advertised && ar.code/100 != 2 && !conn.didAuth, "C09.no-auth-without-backend-support")
	default:
		verifReach("C09.allowed")
		verifAssert(advertised, "C09.auth-advertised-when-permitted")
		verifAssert(ar.code == 235 && conn.didAuth, "C09.auth-succeeds")
		verifAssert(factoryCalls == base+1 && len(m.calls) == base+1, "C09.mechanism-called-once")
		if len(m.calls) == base+1 {
			verifAssert(string(m.calls[base]) == string(ir) && !m.nilCall[base], "C09.mechanism-gets-decoded-octets")
		}
	}
}

func verif_C09_gate()               { verifC09gate(0) }
func verif_C09_gate_implicit_stub() { verifC09gate(1) }
func verif_C09_gate_starttls_stub() { verifC09gate(2) }

// verif_C09_exchange: a permitted AUTH exchange of 0..2 challenge steps; each
// client response is (a) the base64 of up to 2 arbitrary octets, (b) "=",
// (c) "*", or (d) a line of up to 3 arbitrary 7-bit octets that need not be
// base64. Then AUTH again, and NOOP.
func verif_C09_exchange() {
	steps := nondetInt(0, verifBound(1, 2))
	m := &vsasl{steps: steps, failAt: -1}
	for i := 0; i < steps; i++ {
		m.challenge = append(m.challenge, nondetBytes(1))
	}
	m.fail = nondetBool()
	be := &vbackend{authSession: true, mechs: []string{"XVERIF", "XSECOND"}}
	m2 := &vsasl{failAt: -1}
	nfactory := 0
	be.saslFn = func(_ *vsession, mech string) (sasl.Server, error) {
		if mech == "XVERIF" {
			nfactory++
			return m, nil
		}
		nfactory += 10
		return m2, nil
	}
	s, lg := verifServer(be)
	s.AllowInsecureAuth = true
	in := []byte("EHLO c\r\nAUTH XVERIF")
	hasIR := nondetBool()
	var sent [][]byte // octets the mechanism must receive, in order
	var sentNil []bool
	outcome := 0 // 0 runs to the mechanism's verdict, 1 cancelled, 2 bad base64
	addResp := func(first bool) {
		kind := verifChoice(4)
		switch kind {
		case 0:
			b := nondetBytes(2)
			if len(b) == 0 {
				in = append(in, '=')
			} else {
				in = append(in, verifB64Encode(b)...)
			}
			sent = append(sent, b)
			sentNil = append(sentNil, false)
		case 1:
			in = append(in, '=')
			sent = append(sent, []byte{})
			sentNil = append(sentNil, false)
		case 2:
			assume(!first)
			in = append(in, '*')
			outcome = 1
		case 3:
			raw := nondetBytes(3)
			for _, ch := range raw {
				assume(ch > ' ' && ch < 0x7f)
			}
			assume(len(raw)%4 != 0 && !(len(raw) == 1 && (raw[0] == '=' || raw[0] == '*')))
			in = append(in, raw...)
			outcome = 2
		}
	}
	if hasIR {
		in = append(in, ' ')
		addResp(true)
	} else {
		sent = append(sent, nil)
		sentNil = append(sentNil, true)
	}
	in = append(in, "\r\n"...)
	nresp := 0
	for i := 0; i < steps && outcome == 0; i++ {
		addResp(false)
		in = append(in, "\r\n"...)
		nresp++
	}
	in = append(in, "AUTH XSECOND =\r\nNOOP\r\n"...)
	vc, conn, _ := verifServe(s, in, io.EOF)
	reps, wf := verifParseReplies(vc.out)
	verifAssert(wf && lg.lines == 0, "C09.exchange-replies")
	if !wf {
		return
	}
	verifObserve("c09x", steps, m.fail, hasIR, outcome, len(reps), len(m.calls), conn.didAuth)
	// mechanism saw exactly the octets sent, in order
	ncall := len(sent)
	if outcome != 0 && !hasIR {
		// the first Next(nil) happens before any response line is read
	}
	if outcome == 2 && hasIR && len(sent) == 0 {
		ncall = 0
	}
	verifAssert(len(m.calls) == ncall, "C09.mechanism-call-count")
	if len(m.calls) == ncall {
		for i := range sent {
			verifAssert(string(m.calls[i]) == string(sent[i]) && m.nilCall[i] == sentNil[i], "C09.mechanism-gets-exact-octets")
		}
	}
	// replies: 220, ehlo, [334 x answered challenges], final, second-auth, noop
	n334 := 0
	for _, r := range reps {
		if r.code == 334 {
			n334++
		}
	}
	last := reps[len(reps)-1]
	second := reps[len(reps)-2]
	verifAssert(last.code == 250, "C09.command-mode-after-exchange")
	success := outcome == 0 && !m.fail
	first := reps[2+n334-btoi(second.code == 334)]
	_ = first
	if success {
		verifReach("C09.success")
		verifAssert(conn.didAuth, "C09.authenticated-after-235")
		verifAssert(second.code == 503 && nfactory == 1 && len(m2.calls) == 0, "C09.second-auth-refused")
	} else {
		verifReach("C09.no-success")
		// the second AUTH is a fresh, permitted attempt that succeeds at once
		verifAssert(second.code == 235 && nfactory >= 10 && nfactory <= 11 && len(m2.calls) == 1, "C09.failed-exchange-leaves-command-mode")
	}
	n235 := 0
	for _, r := range reps {
		if r.code == 235 {
			n235++
		}
	}
	verifAssert(n235 == 1, "C09.auth-succeeds-at-most-once")
}

func btoi(b bool) int {
	if b {
		return 1
	}
	return 0
}

// vsaslClient is a recording SASL client mechanism with a harness script.
type vsaslClient struct {
	ir        []byte
	irNil     bool
	resp      [][]byte
	errAt     int // step whose Next fails (-1 never)
	gotChal   [][]byte
	startErr  bool
	nextCalls int
}

func (m *vsaslClient) Start() (string, []byte, error) {
	if m.startErr {
		return "", nil, errors.New("verif: start failed")
	}
	if m.irNil {
		return "XVERIF", nil, nil
	}
	return "XVERIF", m.ir, nil
}

func (m *vsaslClient) Next(challenge []byte) ([]byte, error) {
	i := m.nextCalls
	m.nextCalls++
	m.gotChal = append(m.gotChal, challenge)
	if i == m.errAt {
		return nil, errors.New("verif: client mechanism failed")
	}
	return m.resp[i], nil
}

func verifSplitLines(b []byte) []string {
	var out []string
	st := 0
	for i := 0; i+1 < len(b); i++ {
		if b[i] == '\r' && b[i+1] == '\n' {
			out = append(out, string(b[st:i]))
			st = i + 2
			i++
		}
	}
	if st != len(b) {
		out = append(out, "<unterminated>"+string(b[st:]))
	}
	return out
}

// verif_C09_client: Client.Auth against a scripted peer: k challenge steps
// with arbitrary challenge and response octets (responses of 0..4 - thorough 0..5 - octets each,
// so that their base64 forms differ in length within one exchange), final 235
// or 535, or a mechanism error at some step.
func verif_C09_client() {
	k := nondetInt(0, 2)
	m := &vsaslClient{errAt: -1}
	switch verifChoice(3) {
	case 0:
		m.irNil = true
	case 1:
		m.ir = []byte{}
	case 2:
		m.ir = nondetBytesN(nondetInt(1, 2))
	}
	script := ""
	var chals [][]byte
	for i := 0; i < k; i++ {
		ch := nondetBytes(2)
		chals = append(chals, ch)
		script += "334 " + verifB64Encode(ch) + "\r\n"
		// (0..4 octets: responses of different base64 lengths in one exchange,
		// a later one shorter than an earlier one included)
		m.resp = append(m.resp, nondetBytes(verifBound(4, 5)))
	}
	if k > 0 && nondetBool() {
		m.errAt = nondetInt(0, k-1)
	}
	ok := nondetBool()
	if m.errAt >= 0 {
		// the script ends where the mechanism gives up; the peer answers the cancellation
		script = ""
		for i := 0; i <= m.errAt; i++ {
			script += "334 " + verifB64Encode(chals[i]) + "\r\n"
		}
		script += "501 5.0.0 cancelled\r\n"
	} else if ok {
		script += "235 2.7.0 welcome\r\n"
	} else {
		script += "535 5.7.8 no\r\n501 5.0.0 cancelled\r\n"
	}
	script += "250 2.0.0 ok\r\n"
	c, vc := verifClient(script, map[string]string{"AUTH": "XVERIF"})
	err := c.Auth(m)
	nerr := c.Noop()
	lines := verifSplitLines(vc.out)
	verifObserve("c09c", k, m.errAt, ok, len(lines), err == nil, nerr == nil)
	// expected wire
	var want []string
	first := "AUTH XVERIF"
	if !m.irNil {
		if len(m.ir) == 0 {
			first += " ="
		} else {
			first += " " + verifB64Encode(m.ir)
		}
	}
	want = append(want, first)
	nsteps := k
	if m.errAt >= 0 {
		nsteps = m.errAt
	}
	for i := 0; i < nsteps; i++ {
		want = append(want, verifB64Encode(m.resp[i]))
	}
	if m.errAt >= 0 || !ok {
		want = append(want, "*")
	}
	want = append(want, "NOOP")
	verifAssert(len(lines) == len(want), "C09.client-line-count")
	if len(lines) == len(want) {
		for i := range want {
			verifAssert(lines[i] == want[i], "C09.client-octets-cross-unaltered")
		}
	}
	ncalls := nsteps
	if m.errAt >= 0 {
		ncalls = m.errAt + 1
	}
	verifAssert(m.nextCalls == ncalls, "C09.client-mechanism-call-count")
	if m.nextCalls == ncalls {
		for i := 0; i < ncalls; i++ {
			verifAssert(string(m.gotChal[i]) == string(chals[i]), "C09.client-challenge-unaltered")
		}
	}
	verifAssert(nerr == nil, "C09.client-connection-usable-after-auth")
	switch {
	case m.errAt >= 0:
		verifReach("C09.client-mechanism-error")
		verifAssert(err != nil, "C09.client-reports-mechanism-error")
	case ok:
		verifReach("C09.client-success")
		verifAssert(err == nil, "C09.client-reports-success")
	default:
		verifReach("C09.client-rejected")
		se, isSE := err.(*SMTPError)
		verifAssert(isSE && se != nil && se.Code == 535 && se.EnhancedCode == EnhancedCode{5, 7, 8} && se.Message == "no", "C09.client-reports-server-reply")
	}
}

// verif_C09_failed_starttls_stub: STARTTLS whose handshake fails leaves a
// plaintext connection; AUTH on it must stay unreachable unless insecure
// authentication is allowed.
func verif_C09_failed_starttls_stub() {
	allow := nondetBool()
	m := &vsasl{failAt: -1}
	be := &vbackend{authSession: true, mechs: []string{"XVERIF"}}
	factoryCalls := 0
	be.saslFn = func(_ *vsession, mech string) (sasl.Server, error) {
		factoryCalls++
		return m, nil
	}
	s, _ := verifServer(be)
	s.AllowInsecureAuth = allow
	s.TLSConfig = &tls.Config{}
	reEhlo := nondetBool()
	in := "EHLO p\r\nSTARTTLS\r\n"
	if reEhlo {
		in += "EHLO again\r\n"
	}
	in += "AUTH XVERIF " + verifB64Encode(nondetBytesN(1)) + "\r\nNOOP\r\n"
	vc := &vconn{in: []byte(in), final: io.EOF, tlsFail: true}
	conn := newConn(vc, s)
	s.handleConn(conn)
	reps, wf := verifParseReplies(vc.out)
	n := 5
	if reEhlo {
		n = 6
	}
	verifAssert(wf && len(reps) == n+1, "C09.failed-starttls-replies")
	if !wf || len(reps) != n+1 {
		return
	}
	ar := reps[n-1]
	advertised := false
	if reEhlo {
		for _, l := range reps[4].lines {
			if len(l) >= 4 && l[:4] == "AUTH" {
				advertised = true
			}
		}
	}
	verifObserve("c09f", allow, reEhlo, ar.code, advertised, factoryCalls, len(m.calls))
	if !allow {
		verifReach("C09.failed-starttls-insecure")
		verifAssert(!advertised, "C09.auth-not-advertised-after-failed-handshake")
		verifAssert(ar.code/100 == 5 && !conn.didAuth, "C09.auth-refused-after-failed-handshake")
		verifAssert(factoryCalls == 0 && len(m.calls) == 0, "C09.mechanism-gets-nothing-after-failed-handshake")
	} else {
		verifReach("C09.failed-starttls-allowed")
		verifAssert(ar.code == 235, "C09.insecure-auth-allowed-still-works")
	}
}

// verif_C09_final_data: a mechanism that returns additional data together with
// success (SCRAM, DIGEST-MD5). Whether the server passes that data on in a last
// 334 or not: a 334 that the client answers with "*" or with something that is
// not base64 never ends in 235, and the connection is not authenticated. What
// the client sends after a 235 is a command.
func verif_C09_final_data() {
	m := &vsasl{failAt: -1, steps: nondetInt(0, 1), challenge: [][]byte{[]byte("c")}, finalData: []byte("v=ok")}
	be := &vbackend{authSession: true, mechs: []string{"XVERIF"}}
	be.saslFn = func(_ *vsession, mech string) (sasl.Server, error) { return m, nil }
	s, lg := verifServer(be)
	s.AllowInsecureAuth = true
	ack := []string{"*", "!!!", "", "AA=="}[verifChoice(4)]
	in := "EHLO c\r\nAUTH XVERIF =\r\n"
	for i := 0; i < m.steps; i++ {
		in += "AA==\r\n"
	}
	in += ack + "\r\nNOOP\r\n"
	vc, conn, _ := verifServe(s, []byte(in), io.EOF)
	reps, wf := verifParseReplies(vc.out)
	verifObserve("c09fd", m.steps, ack, wf, len(reps), conn.didAuth)
	verifAssert(wf && lg.lines == 0, "C09.final-data-replies")
	if !wf {
		return
	}
	n334, n235 := 0, 0
	for _, r := range reps {
		if r.code == 334 {
			n334++
		}
		if r.code == 235 {
			n235++
		}
	}
	verifAssert(n235 <= 1 && (n235 == 1) == conn.didAuth, "C09.final-data-235-iff-authenticated")
	if n334 > m.steps && (ack == "*" || ack == "!!!") {
		// the server asked once more and the client cancelled or garbled its answer
		verifAssert(n235 == 0 && !conn.didAuth, "C09.final-data-aborted-last-step-does-not-authenticate")
	}
	verifReach("C09.final-data-end")
	verifAssert(reps[len(reps)-1].code == 250, "C09.final-data-command-mode-after")
}
