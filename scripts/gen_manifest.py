#!/usr/bin/env python3
"""Regenerates /verif/MANIFEST.json from the table below."""
import json, sys

TECH = "bounded symbolic execution of the real go/ssa of /repo (own executor) with z3 deciding every branch and assertion; counterexamples replayed natively"

# property -> (claimed?, level text, level note)
CLAIMS = {
 "C01": ("Every path of dataReader.Read over all octet streams up to the stated length (symbolic octets, three segmentation/buffer regimes), compared with a reference unstuffer written from the statement; holds within the bound, bugs come back as concrete streams replayed against the real build.",
         "Bounds: stream length <= 5 (quick) / 7 (thorough); bufio and dataReader executed from source; longer streams outside the claim."),
 "C02": ("The real server loop (handleConn, handleData, handleDataLMTP incl. its goroutine, bufio, textproto) executed symbolically on DATA bodies with a bait command and 3-4 arbitrary octets around a '.', every backend read/return behaviour, four size limits and three server flavours; the oracle places the true end marker with refUnstuff and demands that exactly the lines after it execute.",
         "Bounds: 3 (quick) / 4 (thorough) symbolic 7-bit octets at fixed positions; scheduler without pre-emption (deliveries run to their next blocking point)."),
 "C03": ("All histories of 3 (quick) / 4 (thorough) commands over an 18-command alphabet, lock-step through the real loop, with symbolic backend verdicts; a reference transaction state machine predicts the exact callback sequence, the reply class of every command and the final envelope state.",
         "Bounds: history length 3/4, alphabet arguments concrete, MaxRecipients in {0,1}; BDAT histories are covered under C05/C07, STARTTLS/AUTH under C09/C10."),
 "C04": ("One command line of up to 4 (quick) / 5 (thorough) arbitrary 7-bit octets from three connection states through the real loop: exactly one reply per line, strict RFC 5321 reply grammar with matching enhanced-code class, connection usable afterwards.",
         "Bounds: line length, 7-bit octets (case mapping of non-ASCII is outside the executor's intrinsic); the echo of control octets is a listed known finding. Pipelining/stale-verdict parts: see DESIGN.md."),
 "C05": ("BDAT refusal paths with the chunk being a command line (two octets arbitrary) and all chunkings of <= 2/3 chunks of 0..2 arbitrary octets through the real handleBdat, its delivery goroutine and io.Pipe (executed from source on the engine's scheduler), three segmentations.",
         "Bounds: chunk sizes <= 2, <= 2 (quick) / 3 (thorough) chunks, no pre-emption; MaxLineLength interplay see DESIGN.md (known limitation of the limiter placement)."),
 "C06": ("One-step inductive harness on the reader's 64-bit budget arithmetic from an arbitrary state; whole DATA transactions with N around the message size, differential on accept/refuse; SIZE= declarations of 1-3 arbitrary digits against an arbitrary limit.",
         "Bounds: messages <= 2/3 arbitrary octets + CRLF, N <= L+4, SIZE <= 3 digits, limit <= 1200; BDAT limit arithmetic is exercised in C05."),
 "C07": ("Every cut offset of DATA and two-chunk BDAT conversations with arbitrary message octets, three kinds of connection end, SMTP/LMTP/per-recipient LMTP, plus every abandoning command after a first chunk; the backend reader's terminating error and the replies are compared with what the delivered prefix justifies.",
         "Bounds: 3/4 message octets, chunks of 2+3 octets, no pre-emption."),
 "C08": ("Prefix of <= 2/3 commands, one of five closing events, and a suffix of 2 commands already buffered in the same segment, through the real loop; trace oracle with session identities (exactly one Logout, nothing after it, nothing after the closing reply, no recovered panic, no goroutine left).",
         "Bounds: 8-command alphabet, prefix 2 (quick) / 3 (thorough), suffix 2; idle time-out is an error value returned by the harness connection."),
 "C19": ("Command lines of arbitrary 7-bit octets (no crash, no recovered panic, one reply, connection survives) and lines around MaxLineLength at three positions under three segmentations through the real limiter, bufio and loop.",
         "Bounds: MaxLineLength = 24 in the limit harness, line lengths max-3..max+4, lines <= 4/5 octets in the garbage harness; 8-bit command octets outside (case-mapping intrinsic)."),
}
NA = {}

def main():
    props = [json.loads(l)["id"] for l in open("/verif/properties.jsonl")]
    checks = []
    na = []
    for pid in props:
        if pid in CLAIMS:
            text, note = CLAIMS[pid]
            checks.append({
                "property_id": pid,
                "quick_cmd": "/verif/scripts/check.sh %s quick" % pid,
                "thorough_cmd": "/verif/scripts/check.sh %s thorough" % pid,
                "evidence_file": "/verif/evidence/%s.json" % pid,
                "replay_cmd_template": "/verif/bin/check --replay {path}",
                "engine": "gosym",
                "level_claimed": {"category": "model_checking", "text": text, "design_ref": "DESIGN.md section 5 (%s)" % pid},
                "level_note": note,
                "technique": TECH,
            })
        else:
            na.append({"property_id": pid, "reason": NA.get(pid, "check not built yet (work in progress; see DESIGN.md section 8)")})
    m = {
        "version": 1,
        "setup_cmd": "/verif/scripts/setup.sh",
        "hooks": {
            "guard": "verif",
            "enable": "no hooks: harness files are injected as /repo/zz_verif_*.go through go/packages and go test overlays; nothing is committed to /repo for them",
            "baseline_off_cmd": "/verif/scripts/baseline_off.sh",
            "source_commits": [],
            "add_only": True,
        },
        "engines": [{
            "name": "gosym",
            "path": "/verif/engine",
            "serves_properties": sorted(CLAIMS.keys()),
            "kind_free_text": "symbolic executor over go/ssa (x/tools v0.29.0) written for this task: bit-vector terms, solver-decided forking by re-execution, cooperative goroutine scheduler, z3 4.8.12 via one persistent process per worker",
        }],
        "checks": checks,
        "not_applicable": na,
        "notes": "exit 0 = held within bounds (KNOWN-FINDING lines allowed), 1 = natively replayed VIOLATION, 2 = inconclusive (never success). See DESIGN.md.",
    }
    json.dump(m, open("/verif/MANIFEST.json", "w"), indent=1)
    print("wrote MANIFEST.json: %d checks, %d not applicable" % (len(checks), len(na)))

main()
