package smtp

func verif_C04_line() { verifLineHarness("C04") }
