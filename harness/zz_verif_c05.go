package smtp

import (
	"io"
	"strconv"
)

// verif_C05_refused: a BDAT command that the server refuses (no envelope, bad
// LAST token, too many arguments, over the size limit) followed, as RFC 3030
// prescribes, by its chunk, whose octets are a complete command line. The
// declared octets must be discarded - never executed - and the next command
// is the one after them.
func verif_C05_refused() {
	verifPreemptBound(0)
	state := verifChoice(3) // 0: greeted only, 1: MAIL ok but RCPT rejected, 2: envelope ok
	kind := verifChoice(4)  // 0 plain / 1 bad LAST token / 2 too many args / 3 over limit
	be := &vbackend{}
	be.rcptErr = func(to string) error {
		if state == 1 {
			return verifErrBackend()
		}
		return nil
	}
	var gotData []byte
	var dataErr error
	be.dataFn = func(_ *vsession, r io.Reader) error {
		gotData, dataErr = verifReadAll(r, 4)
		if dataErr == io.EOF {
			return nil
		}
		return dataErr
	}
	s, lg := verifServer(be)
	pre := "EHLO c\r\n"
	npre := 2
	if state >= 1 {
		pre += "MAIL FROM:<s@v>\r\nRCPT TO:<r@v>\r\n"
		npre = 4
	}
	payload := "MAIL FROM:<bait@v>\r\n"
	// two payload octets are arbitrary (binary transparency of the discard)
	pb := []byte(payload)
	pb[5] = nondetByte()
	pb[len(pb)-1] = nondetByte()
	n := strconv.Itoa(len(pb))
	var line string
	refused := true
	switch kind {
	case 0:
		line = "BDAT " + n + " LAST\r\n"
		refused = state != 2
	case 1:
		line = "BDAT " + n + " FOO\r\n"
	case 2:
		line = "BDAT " + n + " LAST X\r\n"
	case 3:
		s.MaxMessageBytes = int64(len(pb) - 1)
		line = "BDAT " + n + " LAST\r\n"
		refused = true
	}
	in := []byte(pre + line)
	in = append(in, pb...)
	in = append(in, "MAIL FROM:<marker@v>\r\nNOOP\r\n"...)
	vc, _, err := verifServe(s, in, io.EOF)
	reps, wf := verifParseReplies(vc.out)
	verifObserve("c05r", state, kind, wf, len(reps), len(be.trace), lg.lines)
	verifAssert(err == nil && lg.lines == 0, "C05.refused-clean")
	verifAssert(wf, "C05.refused-replies-wellformed")
	if !wf {
		return
	}
	verifAssert(be.find("Mail", "bait@v") < 0, "C05.refused-chunk-never-executed")
	verifAssert(be.find("Mail", "marker@v") >= 0, "C05.command-after-refused-chunk-executes")
	verifAssert(len(reps) == npre+3, "C05.one-reply-per-bdat")
	if len(reps) == npre+3 {
		if refused {
			verifReach("C05.refused")
			verifAssert(reps[npre].code/100 == 5, "C05.refusal-is-5xx")
			verifAssert(be.count("Data") == 0 || kind == 3, "C05.refused-bdat-no-data")
		} else {
			verifReach("C05.accepted")
			verifAssert(reps[npre].code == 250, "C05.accepted-bdat-250")
			verifAssert(string(gotData) == string(pb) && dataErr == io.EOF, "C05.accepted-chunk-binary-exact")
		}
		verifAssert(reps[npre+2].code == 250, "C05.noop-after")
	}
	verifAssert(verifGoroutinesAlive() == 0, "C05.no-goroutine-left")
}

// verif_C05_chunks: every division of a message of arbitrary octets into
// 1..K chunks of sizes 0..2, LAST on the final chunk (empty or not), each
// chunk followed by the next command; segmentation per run.
func verif_C05_chunks() {
	verifPreemptBound(0)
	K := verifBound(2, 3)
	nch := nondetInt(1, K)
	seg := verifChoice(3)
	var all []byte
	in := []byte("EHLO c\r\nMAIL FROM:<s@v>\r\nRCPT TO:<r@v>\r\n")
	for i := 0; i < nch; i++ {
		sz := nondetInt(0, 2)
		chunk := nondetBytesN(sz)
		all = append(all, chunk...)
		line := "BDAT " + strconv.Itoa(sz)
		if i == nch-1 {
			line += " LAST"
		}
		in = append(in, line+"\r\n"...)
		in = append(in, chunk...)
	}
	in = append(in, "MAIL FROM:<marker@v>\r\n"...)
	var got []byte
	var rerr error
	be := &vbackend{}
	be.dataFn = func(_ *vsession, r io.Reader) error {
		got, rerr = verifReadAll(r, 3)
		if rerr == io.EOF {
			return nil
		}
		return rerr
	}
	s, lg := verifServer(be)
	s.MaxLineLength = 30
	vc := &vconn{in: in, final: io.EOF}
	switch seg {
	case 1:
		vc.seg = 1
	case 2:
		vc.seg = 7
	}
	c := newConn(vc, s)
	err := s.handleConn(c)
	verifSettle()
	reps, wf := verifParseReplies(vc.out)
	verifObserve("c05c", nch, seg, all, got, wf, len(reps), rerr == io.EOF)
	verifAssert(err == nil && lg.lines == 0, "C05.chunks-clean")
	verifAssert(wf && len(reps) == 4+nch+1, "C05.one-reply-per-chunk")
	verifAssert(be.count("Data") == 1, "C05.single-data-call")
	verifAssert(string(got) == string(all), "C05.concatenation-binary-exact")
	verifAssert(rerr == io.EOF, "C05.eof-after-last")
	verifAssert(be.find("Mail", "marker@v") >= 0, "C05.next-command-after-declared-size")
	verifAssert(be.count("Mail") == 2, "C05.no-payload-octet-executed")
	if wf && len(reps) == 4+nch+1 {
		for i := 0; i < nch; i++ {
			verifAssert(reps[4+i].code == 250, "C05.chunk-accepted")
		}
	}
	verifAssert(verifGoroutinesAlive() == 0, "C05.no-goroutine-left")
	verifReach("C05.chunks-end")
}
