#!/usr/bin/env python3
"""Regenerates /verif/MANIFEST.json from the table below."""
import json, sys

TECH = "bounded symbolic execution of the real go/ssa of /repo (own executor) with z3 deciding every branch and assertion; counterexamples replayed natively"

# property -> (claimed?, level text, level note)
CLAIMS = {
 "C01": ("Every path of dataReader.Read over all octet streams up to the stated length (symbolic octets, three segmentation/buffer regimes), compared with a reference unstuffer written from the statement; holds within the bound, bugs come back as concrete streams replayed against the real build.",
         "Bounds: stream length <= 5 (quick) / 7 (thorough); bufio and dataReader executed from source; longer streams outside the claim."),
 "C02": ("The real server loop (handleConn, handleData, handleDataLMTP incl. its goroutine, bufio, textproto) executed symbolically on DATA bodies with a bait command and 3-4 arbitrary octets around a '.', every backend read/return behaviour, four size limits and three server flavours; the oracle places the true end marker with refUnstuff and demands that exactly the lines after it execute.",
         "Bounds: 3 (quick) / 4 (thorough) symbolic 7-bit octets at fixed positions; scheduler without pre-emption (deliveries run to their next blocking point)."),
 "C03": ("All histories of 3 (quick) / 4 (thorough) commands over an 18-command alphabet, lock-step through the real loop, with symbolic backend verdicts; a reference transaction state machine predicts the exact callback sequence, the reply class of every command and the final envelope state.",
         "Bounds: history length 3/4, alphabet arguments concrete, MaxRecipients in {0,1}; BDAT histories are covered under C05/C07, STARTTLS/AUTH under C09/C10."),
 "C04": ("One command line of up to 4 (quick) / 5 (thorough) arbitrary 7-bit octets from three connection states through the real loop: exactly one reply per line, strict RFC 5321 reply grammar with matching enhanced-code class, connection usable afterwards.",
         "Bounds: line length, 7-bit octets (case mapping of non-ASCII is outside the executor's intrinsic); the echo of control octets is a listed known finding. Pipelining/stale-verdict parts: see DESIGN.md."),
 "C05": ("BDAT refusal paths with the chunk being a command line (two octets arbitrary) and all chunkings of <= 2/3 chunks of 0..2 arbitrary octets through the real handleBdat, its delivery goroutine and io.Pipe (executed from source on the engine's scheduler), three segmentations.",
         "Bounds: chunk sizes <= 2, <= 2 (quick) / 3 (thorough) chunks, no pre-emption; MaxLineLength interplay see DESIGN.md (known limitation of the limiter placement)."),
 "C06": ("One-step inductive harness on the reader's 64-bit budget arithmetic from an arbitrary state; whole DATA transactions with N around the message size, differential on accept/refuse; SIZE= declarations of 1-3 arbitrary digits against an arbitrary limit.",
         "Bounds: messages <= 2/3 arbitrary octets + CRLF, N <= L+4, SIZE <= 3 digits, limit <= 1200; BDAT limit arithmetic is exercised in C05."),
 "C07": ("Every cut offset of DATA and two-chunk BDAT conversations with arbitrary message octets, three kinds of connection end, SMTP/LMTP/per-recipient LMTP, plus every abandoning command after a first chunk; the backend reader's terminating error and the replies are compared with what the delivered prefix justifies.",
         "Bounds: 3/4 message octets, chunks of 2+3 octets, no pre-emption."),
 "C08": ("Prefix of <= 2/3 commands, one of five closing events, and a suffix of 2 commands already buffered in the same segment, through the real loop; trace oracle with session identities (exactly one Logout, nothing after it, nothing after the closing reply, no recovered panic, no goroutine left).",
         "Bounds: 8-command alphabet, prefix 2 (quick) / 3 (thorough), suffix 2; idle time-out is an error value returned by the harness connection."),
 "C19": ("Command lines of arbitrary 7-bit octets (no crash, no recovered panic, one reply, connection survives) and lines around MaxLineLength at three positions under three segmentations through the real limiter, bufio and loop.",
         "Bounds: MaxLineLength = 24 in the limit harness, line lengths max-3..max+4, lines <= 4/5 octets in the garbage harness; 8-bit command octets outside (case-mapping intrinsic)."),
 "C09": ("AUTH reachability over TLS state x AllowInsecureAuth x backend kind x greeting (plaintext natively validated, TLS states on the TLS stub), server exchanges with base64 of arbitrary octets / '=' / '*' / non-base64 lines, the client's Auth against a scripted peer with arbitrary challenge and response octets, and AUTH after a failed STARTTLS handshake; encoding/base64 executed from source against an independent reference encoder.",
         "Bounds: 0..2 octets per response/challenge, 0..1 (quick) / 0..2 (thorough) challenge steps. TLS is a stub (contract in DESIGN.md section 2.4)."),
 "C10": ("STARTTLS on the server from four plaintext states with an injected plaintext command (two octets arbitrary) and on the client against six peer misbehaviours, through NewClientStartTLS and the package-level SendMail; relative to the TLS stub contract.",
         "Both harnesses need the crypto/tls stub, so there is no native translator validation for C10; counterexamples are confirmed by pinned re-execution of the real SSA in the engine. The TLS protocol itself is outside."),
 "C11": ("MAIL/RCPT lines: all strings of <= 3/4 symbols over a 15-symbol alphabet in three frames, single-octet mutations (arbitrary 7-bit octet) of seven valid paths, and every parameter with arbitrary short values, classified by an independent narrow reference grammar (valid / definitely invalid / unspecified); parser, parseArgs, the regexp-based xtext decoders and strconv executed from source.",
         "Bounds: path <= 3/4 symbols, values <= 3 octets; unspecified inputs are not judged; RRVS not encoded (time.Parse)."),
 "C12": ("The complete configuration space x 9 extension probes through handleGreet and the handlers, compared with an independent capability list; the TLS-active third runs on the TLS stub.",
         "Exhaustive over the finite space with limits 1000 / 7; other limit values and the RRVS-enabled probe are outside."),
 "C13": ("LMTP final replies for every recipient list over two addresses, every contract-conforming script of SetStatus calls, return value, panic and early failure, DATA and BDAT, plain and per-recipient sessions, with the delivery goroutine pre-empted at synchronisation points; deadlocks and leaked goroutines are violations.",
         "Bounds: <= 2 (quick) / 3 (thorough) recipients, <= 1/2 pre-emptions, <= 4/6 free scheduling forks."),
 "C14": ("xtext round trip on all strings of <= 2/3 7-bit octets and the three address codecs on ONE SYMBOLIC Unicode scalar (a handful of paths decide all 1 112 064 scalar values), encoders, the regexp-driven decoders, strconv and utf8 executed from source.",
         "The whole option struct's trip is decomposed: client line construction is C15's, server parsing C11's; this check owns codec inversion. RRVS outside (time formatting not encoded)."),
 "C15": ("Client.Mail/Rcpt/Hello/Verify with one hostile argument of arbitrary octets at a time and a symbolic capability map: at most one CRLF-terminated line or a local error with nothing written; parameters only for advertised extensions; REQUIRETLS/SMTPUTF8 never dropped.",
         "Bounds: hostile argument <= 2/3 (mail/rcpt) or 3/4 (hello/verify) octets; capability maps: one extension under test, the rest jointly on/off."),
 "C16": ("Client DATA writer and server composed sequentially: arbitrary bodies (CR only before LF) in three Write calls at arbitrary cut points; the wire octets are served by the real server and the backend must read refNormalize(body) with the same envelope; verdict and double Close.",
         "Bounds: body <= 4/5 octets, 3 Write calls."),
 "C17": ("Backend errors from the four callbacks with symbolic reply code, symbolic enhanced code (set/unset/absent) and 1-2 lines of arbitrary text octets: strict reply grammar on the wire, then the same octets through the real client, whose SMTPError must equal the backend's.",
         "Bounds: text lines <= 2/3 octets, <= 2 lines; control octets in backend messages outside."),
 "C18": ("LMTP client against a scripted peer over 1..2/3 consecutive transactions with arbitrary accept/refuse patterns and verdicts, with and without a status callback; the read position of the scripted connection shows whether Close consumed exactly this transaction's replies.",
         "Bounds: <= 2 recipients per transaction, <= 2 (quick) / 3 (thorough) transactions."),
 "C20": ("Serve over arbitrary Accept result sequences followed by Close or Shutdown on the engine's cooperative scheduler (deadlock = all goroutines blocked, leak = goroutines alive at the end), and three connection scenarios under a vector-clock happens-before monitor over go-smtp's own loads and stores; unlisted races are additionally looked for with the Go race detector on the natively compiled harness.",
         "Bounds: scripts <= 3/5, <= 1/2 pre-emptions at synchronisation operations, <= 3/5 free scheduling forks. This is a bounded check of the happens-before discipline on explored schedules, not a race-freedom proof; five races between Server.Close and the handlers are listed known findings."),
}
NA = {}

def main():
    props = [json.loads(l)["id"] for l in open("/verif/properties.jsonl")]
    checks = []
    na = []
    for pid in props:
        if pid in CLAIMS:
            text, note = CLAIMS[pid]
            checks.append({
                "property_id": pid,
                "quick_cmd": "/verif/scripts/check.sh %s quick" % pid,
                "thorough_cmd": "/verif/scripts/check.sh %s thorough" % pid,
                "evidence_file": "/verif/evidence/%s.json" % pid,
                "replay_cmd_template": "/verif/bin/check --replay {path}",
                "engine": "gosym",
                "level_claimed": {"category": "model_checking", "text": text, "design_ref": "DESIGN.md section 5 (%s)" % pid},
                "level_note": note,
                "technique": TECH,
            })
        else:
            na.append({"property_id": pid, "reason": NA.get(pid, "check not built yet (work in progress; see DESIGN.md section 8)")})
    m = {
        "version": 1,
        "setup_cmd": "/verif/scripts/setup.sh",
        "hooks": {
            "guard": "verif",
            "enable": "no hooks: harness files are injected as /repo/zz_verif_*.go through go/packages and go test overlays; nothing is committed to /repo for them",
            "baseline_off_cmd": "/verif/scripts/baseline_off.sh",
            "source_commits": [],
            "add_only": True,
        },
        "engines": [{
            "name": "gosym",
            "path": "/verif/engine",
            "serves_properties": sorted(CLAIMS.keys()),
            "kind_free_text": "symbolic executor over go/ssa (x/tools v0.29.0) written for this task: bit-vector terms, solver-decided forking by re-execution, cooperative goroutine scheduler, z3 4.8.12 via one persistent process per worker",
        }],
        "checks": checks,
        "not_applicable": na,
        "notes": "exit 0 = held within bounds (KNOWN-FINDING lines allowed), 1 = natively replayed VIOLATION, 2 = inconclusive (never success). See DESIGN.md.",
    }
    json.dump(m, open("/verif/MANIFEST.json", "w"), indent=1)
    print("wrote MANIFEST.json: %d checks, %d not applicable" % (len(checks), len(na)))

main()
