package smtp

import (
	"io"
	"net"
)

// verif_C07_data_cut: a DATA conversation with arbitrary body octets is cut at
// an arbitrary byte offset; then the connection ends with EOF, a timeout or
// "use of closed connection". Oracle: the backend's reader may report EOF only
// if the complete message, through its end marker, was inside the delivered
// prefix; otherwise its final error is non-nil and not EOF and no positive
// final reply is written.
func verif_C07_data_cut() {
	L := verifBound(3, 4)
	msg := nondetBytesN(L)
	lmtp := nondetBool()
	perRcpt := false
	if lmtp {
		perRcpt = nondetBool()
	}
	hello := "EHLO c\r\n"
	if lmtp {
		hello = "LHLO c\r\n"
	}
	head := hello + "MAIL FROM:<s@v>\r\nRCPT TO:<r@v>\r\nDATA\r\n"
	stream := append(append([]byte{}, msg...), "\r\n.\r\n"...)
	in := append([]byte(head), stream...)
	cut := nondetInt(len(head), len(in))
	var final error
	switch verifChoice(3) {
	case 0:
		final = io.EOF
	case 1:
		final = verifTimeoutErr{}
	case 2:
		final = net.ErrClosed
	}
	var got []byte
	var rerr error
	called := false
	be := &vbackend{lmtpSession: perRcpt}
	consume := func(r io.Reader) error {
		called = true
		got, rerr = verifReadAll(r, 3)
		if rerr == io.EOF {
			return nil
		}
		return rerr
	}
	be.dataFn = func(_ *vsession, r io.Reader) error { return consume(r) }
	be.lmtpFn = func(_ *vsession, r io.Reader, _ StatusCollector) error { return consume(r) }
	s, _ := verifServer(be)
	s.LMTP = lmtp
	vc, _, _ := verifServe(s, in[:cut], final)

	delivered := in[len(head):cut]
	body, _, complete := refUnstuff(delivered)
	verifAssert(called, "C07.data-called")
	reps, wf := verifParseReplies(vc.out)
	verifAssert(wf, "C07.replies-wellformed")
	// replies: greeting, hello, mail, rcpt, 354, [final...]
	positives := 0
	for i := 5; i < len(reps); i++ {
		if reps[i].code/100 == 2 {
			positives++
		}
	}
	verifObserve("c07", msg, cut, lmtp, perRcpt, complete, rerr == io.EOF, len(got), positives)
	if complete {
		verifReach("C07.complete")
		verifAssert(rerr == io.EOF, "C07.complete-message-ends-with-eof")
		verifAssert(string(got) == string(body), "C07.complete-message-intact")
	} else {
		verifReach("C07.incomplete")
		verifAssert(rerr != nil && rerr != io.EOF, "C07.incomplete-message-never-eof")
		verifAssert(positives == 0, "C07.incomplete-message-no-positive-reply")
		verifAssert(verifIsPrefix(got, body), "C07.partial-octets-are-a-prefix")
	}
	verifAssert(verifGoroutinesAlive() == 0, "C07.no-goroutine-left")
}

// verif_C07_bdat_cut: a two-chunk BDAT conversation cut at every byte offset
// (inside a chunk, inside the LAST chunk, between chunks), then EOF / timeout.
// Oracle as for DATA: EOF for the backend only if every declared octet through
// the LAST chunk was delivered; otherwise a non-EOF error and no 2xx reply for
// the LAST chunk.
func verif_C07_bdat_cut() {
	verifPreemptBound(0)
	c1 := nondetBytesN(2)
	c2 := nondetBytesN(3)
	head := "EHLO c\r\nMAIL FROM:<s@v>\r\nRCPT TO:<r@v>\r\n"
	in := []byte(head + "BDAT 2\r\n")
	in = append(in, c1...)
	lastCmdAt := len(in)
	in = append(in, "BDAT 3 LAST\r\n"...)
	in = append(in, c2...)
	full := len(in)
	cut := nondetInt(len(head), full)
	var final error = io.EOF
	if nondetBool() {
		final = verifTimeoutErr{}
	}
	var got []byte
	var rerr error
	called := false
	be := &vbackend{}
	be.dataFn = func(_ *vsession, r io.Reader) error {
		called = true
		got, rerr = verifReadAll(r, 2)
		if rerr == io.EOF {
			return nil
		}
		return rerr
	}
	s, _ := verifServer(be)
	vc, _, _ := verifServe(s, in[:cut], final)
	reps, wf := verifParseReplies(vc.out)
	verifAssert(wf, "C07.bdat-replies-wellformed")
	complete := cut == full
	all := append(append([]byte{}, c1...), c2...)
	verifObserve("c07b", cut, complete, called, rerr == io.EOF, len(got), len(reps))
	if called {
		verifReach("C07.bdat-data-called")
		if complete {
			verifReach("C07.bdat-complete")
			verifAssert(rerr == io.EOF && string(got) == string(all), "C07.bdat-complete-message-intact")
		} else {
			verifReach("C07.bdat-incomplete")
			verifAssert(rerr != nil && rerr != io.EOF, "C07.bdat-incomplete-never-eof")
			verifAssert(verifIsPrefix(got, all), "C07.bdat-partial-is-prefix")
		}
	}
	if !complete && wf {
		// replies: 220, ehlo, mail, rcpt, [chunk1 250], [last ...]
		// no positive reply may exist for the LAST chunk
		nlast := 0
		if cut > lastCmdAt && len(reps) > 5 {
			for _, r := range reps[5:] {
				if r.code/100 == 2 {
					nlast++
				}
			}
		}
		verifAssert(nlast == 0, "C07.bdat-incomplete-no-positive-final-reply")
	}
	verifAssert(verifGoroutinesAlive() == 0, "C07.bdat-no-goroutine-left")
}

// verif_C07_abandon: a first chunk, then the client abandons the transfer with
// RSET, QUIT, a new EHLO, a new MAIL, or by disconnecting. The backend's
// reader must fail (never EOF) and no goroutine may be left.
func verif_C07_abandon() {
	verifPreemptBound(0)
	c1 := nondetBytesN(2)
	in := []byte("EHLO c\r\nMAIL FROM:<s@v>\r\nRCPT TO:<r@v>\r\nBDAT 2\r\n")
	in = append(in, c1...)
	how := verifChoice(5)
	in = append(in, []string{"RSET\r\n", "QUIT\r\n", "EHLO again\r\n", "", "DATA\r\n"}[how]...)
	var got []byte
	var rerr error
	be := &vbackend{}
	be.dataFn = func(_ *vsession, r io.Reader) error {
		got, rerr = verifReadAll(r, 2)
		if rerr == io.EOF {
			return nil
		}
		return rerr
	}
	s, _ := verifServer(be)
	vc, _, _ := verifServe(s, in, io.EOF)
	reps, wf := verifParseReplies(vc.out)
	verifObserve("c07a", how, rerr == io.EOF, len(got), wf, len(reps))
	verifAssert(wf, "C07.abandon-replies-wellformed")
	verifAssert(be.count("Data") == 1, "C07.abandon-data-called-once")
	verifAssert(rerr != nil && rerr != io.EOF, "C07.abandoned-transfer-never-eof")
	verifAssert(string(got) == string(c1), "C07.abandoned-transfer-octets")
	verifAssert(verifGoroutinesAlive() == 0, "C07.abandon-no-goroutine-left")
	verifReach("C07.abandon-end")
}
