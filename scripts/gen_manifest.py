#!/usr/bin/env python3
"""Regenerates /verif/MANIFEST.json from the table below."""
import json, sys

TECH = "bounded symbolic execution of the real go/ssa of /repo (own executor) with z3 deciding every branch and assertion; counterexamples replayed natively"

# property -> (claimed?, level text, level note)
CLAIMS = {
 "C01": ("Every path of dataReader.Read over all octet streams up to the stated length (symbolic octets, three segmentation/buffer regimes), compared with a reference unstuffer written from the statement; holds within the bound, bugs come back as concrete streams replayed against the real build.",
         "Bounds: stream length <= 5 (quick) / 7 (thorough); bufio and dataReader executed from source; longer streams outside the claim except through the per-state table harness."),
}
NA = {}

def main():
    props = [json.loads(l)["id"] for l in open("/verif/properties.jsonl")]
    checks = []
    na = []
    for pid in props:
        if pid in CLAIMS:
            text, note = CLAIMS[pid]
            checks.append({
                "property_id": pid,
                "quick_cmd": "/verif/scripts/check.sh %s quick" % pid,
                "thorough_cmd": "/verif/scripts/check.sh %s thorough" % pid,
                "evidence_file": "/verif/evidence/%s.json" % pid,
                "replay_cmd_template": "/verif/bin/check --replay {path}",
                "engine": "gosym",
                "level_claimed": {"category": "model_checking", "text": text, "design_ref": "DESIGN.md section 5 (%s)" % pid},
                "level_note": note,
                "technique": TECH,
            })
        else:
            na.append({"property_id": pid, "reason": NA.get(pid, "check not built yet (work in progress; see DESIGN.md section 8)")})
    m = {
        "version": 1,
        "setup_cmd": "/verif/scripts/setup.sh",
        "hooks": {
            "guard": "verif",
            "enable": "no hooks: harness files are injected as /repo/zz_verif_*.go through go/packages and go test overlays; nothing is committed to /repo for them",
            "baseline_off_cmd": "/verif/scripts/baseline_off.sh",
            "source_commits": [],
            "add_only": True,
        },
        "engines": [{
            "name": "gosym",
            "path": "/verif/engine",
            "serves_properties": sorted(CLAIMS.keys()),
            "kind_free_text": "symbolic executor over go/ssa (x/tools v0.29.0) written for this task: bit-vector terms, solver-decided forking by re-execution, cooperative goroutine scheduler, z3 4.8.12 via one persistent process per worker",
        }],
        "checks": checks,
        "not_applicable": na,
        "notes": "exit 0 = held within bounds (KNOWN-FINDING lines allowed), 1 = natively replayed VIOLATION, 2 = inconclusive (never success). See DESIGN.md.",
    }
    json.dump(m, open("/verif/MANIFEST.json", "w"), indent=1)
    print("wrote MANIFEST.json: %d checks, %d not applicable" % (len(checks), len(na)))

main()
