package smtp

import (
	"context"
	"crypto/tls"
	"errors"
	"io"
	"net"
	"time"
)

type verifTempErr struct{}

func (verifTempErr) Error() string   { return "verif: temporary accept error" }
func (verifTempErr) Timeout() bool   { return false }
func (verifTempErr) Temporary() bool { return true }

// a temporary error that is also a timeout (what a listener with a deadline
// returns when the deadline passes)
type verifTempTimeoutErr struct{}

func (verifTempTimeoutErr) Error() string   { return "verif: temporary accept timeout" }
func (verifTempTimeoutErr) Timeout() bool   { return true }
func (verifTempTimeoutErr) Temporary() bool { return true }

var verifPermErr = errors.New("verif: permanent accept error")

// vlistener returns a scripted sequence of Accept results; when the script is
// exhausted it calls onIdle once and then blocks until closed.
type vlistener struct {
	script       []int // 0 temporary error, 1 permanent error, 2 connection (held open), 3 connection (peer gone at once), 4 silent peer, 5 temporary error that is also a timeout
	pos          int
	closed       chan struct{}
	closes       int
	conns        []*vconn
	onIdle       func()
	idled        bool
	accepts      int
	onIdleBefore func()
	closeErr     error // returned by Close (the listener is closed all the same)
}

func (l *vlistener) Accept() (net.Conn, error) {
	l.accepts++
	if l.pos < len(l.script) {
		k := l.script[l.pos]
		l.pos++
		switch k {
		case 0:
			return nil, verifTempErr{}
		case 5:
			return nil, verifTempTimeoutErr{}
		case 1:
			return nil, verifPermErr
		case 2:
			vc := &vconn{final: io.EOF, hold: make(chan struct{})}
			l.conns = append(l.conns, vc)
			return vc, nil
		case 4:
			// a silent peer: it neither sends nor reads
			vc := &vconn{final: io.EOF, hold: make(chan struct{}), wblock: make(chan struct{})}
			l.conns = append(l.conns, vc)
			return vc, nil
		default:
			vc := &vconn{final: io.EOF}
			l.conns = append(l.conns, vc)
			return vc, nil
		}
	}
	if !l.idled && l.onIdle != nil {
		l.idled = true
		if l.onIdleBefore != nil {
			l.onIdleBefore()
		}
		l.onIdle()
	}
	<-l.closed
	return nil, net.ErrClosed
}

func (l *vlistener) Close() error {
	l.closes++
	if l.closes == 1 {
		close(l.closed)
	}
	return l.closeErr
}
func (l *vlistener) Addr() net.Addr { return verifAddr{} }

// vctx is a harness-defined context: already expired, or never.
type vctx struct {
	done chan struct{}
	err  error
}

func (c *vctx) Deadline() (time.Time, bool)       { return time.Time{}, false }
func (c *vctx) Done() <-chan struct{}             { return c.done }
func (c *vctx) Err() error                        { return c.err }
func (c *vctx) Value(key interface{}) interface{} { return nil }

var _ context.Context = (*vctx)(nil)

// verif_C20_serve: Serve over a listener that returns an arbitrary sequence of
// temporary errors, permanent errors and connections, followed by
// Server.Close or Server.Shutdown from another goroutine.
func verif_C20_serve() { verifC20serve(verifBound(3, 4), 0, verifBound(3, 4)) }

// shorter scripts, but with one pre-emption at a synchronisation operation (thorough tier only)
func verif_C20_serve_preempt_thorough() { verifC20serve(2, 1, 3) }

func verifC20serve(K, preempt, forks int) {
	verifPreemptBound(preempt)
	n := verifChoice(K + 1)
	verifSchedForkBound(forks)
	l := &vlistener{closed: make(chan struct{})}
	firstPerm := -1
	ntemp := 0
	for i := 0; i < n; i++ {
		k := verifChoice(6)
		l.script = append(l.script, k)
		if k == 1 && firstPerm < 0 {
			firstPerm = i
		}
		if (k == 0 || k == 5) && firstPerm < 0 {
			ntemp++
		}
	}
	be := &vbackend{}
	s, lg := verifServer(be)
	useShutdown := nondetBool()
	ctxExpired := nondetBool()
	// the first listener's Close may fail; a second listener (no script, just
	// waiting in Accept) is served by another goroutine
	var closeErr error
	if nondetBool() {
		closeErr = errors.New("verif: listener close failed")
		l.closeErr = closeErr
	}
	two := nondetBool()
	l2 := &vlistener{closed: make(chan struct{})}
	serve2 := make(chan error, 1)
	var stopErr, stopErr2 error
	stopped := make(chan struct{})
	l.onIdle = func() {
		go func() {
			if useShutdown {
				ctx := &vctx{done: make(chan struct{})}
				if ctxExpired {
					ctx.err = context.DeadlineExceeded
					close(ctx.done)
				} else {
					// peers go away while Shutdown waits
					go func() {
						for _, c := range l.conns {
							c.release()
							if c.wblock != nil {
								c.Close() // the silent peer finally goes away
							}
						}
					}()
				}
				stopErr = s.Shutdown(ctx)
			} else {
				stopErr = s.Close()
			}
			stopErr2 = s.Close()
			close(stopped)
		}()
	}
	if two {
		// registered after l: Serve(l) below appends l first
		l.onIdleBefore = func() {
			go func() { serve2 <- s.Serve(l2) }()
			verifSettle()
		}
	}
	err := s.Serve(l)
	if firstPerm >= 0 {
		verifReach("C20.permanent-error")
		verifAssert(err == verifPermErr, "C20.serve-returns-only-the-permanent-error")
		verifAssert(l.pos == firstPerm+1, "C20.serve-stops-at-permanent-error")
		// clean up what was accepted so that nothing is left running
		s.Close()
		verifSettle()
	} else {
		verifReach("C20.closed")
		<-stopped
		verifSettle()
		verifAssert(err == nil, "C20.serve-returns-nil-after-close")
		verifAssert(l.pos == n, "C20.serve-survives-temporary-errors")
		verifAssert(l.closes >= 1, "C20.listener-closed")
		if two {
			verifAssert(l2.closes >= 1, "C20.every-listener-closed")
			e2 := <-serve2
			verifAssert(e2 == nil, "C20.every-serve-returns")
		}
		if useShutdown && ctxExpired {
			// the context has expired already; if every connection happens to
			// be finished too, both arms of Shutdown's select are ready
			verifAssert(stopErr == context.DeadlineExceeded || stopErr == closeErr, "C20.shutdown-returns-context-error-or-listener-result")
		} else {
			verifAssert(stopErr == closeErr, "C20.stop-returns-first-listener-error")
		}
		verifAssert(stopErr2 == ErrServerClosed, "C20.second-close-reports-closed")
		if !useShutdown {
			for _, c := range l.conns {
				verifAssert(c.closed, "C20.close-ends-every-connection")
			}
		}
		if useShutdown && ctxExpired {
			// connections were left alone by Shutdown: release them now
			for _, c := range l.conns {
				c.release()
				if c.wblock != nil {
					c.Close()
				}
			}
			verifSettle()
		}
	}
	// back-off: the k-th temporary error sleeps min(5ms<<k, 1s)
	sl := verifSleeps()
	if verifSymbolic() {
		verifAssert(len(sl) == ntemp, "C20.one-sleep-per-temporary-error")
		d := int64(5 * time.Millisecond)
		for i := 0; i < len(sl) && i < ntemp; i++ {
			verifAssert(sl[i] == d, "C20.backoff-doubles-and-is-capped")
			d *= 2
			if d > int64(time.Second) {
				d = int64(time.Second)
			}
		}
	}
	verifObserve("c20s", n, firstPerm, ntemp, useShutdown, ctxExpired, err == nil, stopErr == nil, lg.lines)
	verifAssert(verifGoroutinesAlive() == 0, "C20.no-goroutine-left")
}

// verif_C20_races: the command loop, the delivery goroutine of a chunked
// transfer and Server.Close on one connection, under the happens-before
// monitor. Scenario 0: Server.Close fires while a chunked transfer is open;
// 1: the transfer is abandoned with RSET and a second message is sent (the
// first delivery overlaps the next transaction); 2: Server.Close fires
// during plain command processing.
func verif_C20_races() {
	verifPreemptBound(verifBound(1, 2))
	verifSchedForkBound(verifBound(3, 5))
	scenario := verifChoice(8)
	be := &vbackend{lmtpSession: scenario == 4}
	be.dataFn = func(_ *vsession, r io.Reader) error {
		_, e := verifReadAll(r, 4)
		if e == io.EOF {
			return nil
		}
		return e
	}
	be.lmtpFn = func(_ *vsession, r io.Reader, st StatusCollector) error {
		_, e := verifReadAll(r, 4)
		if e == io.EOF {
			return nil
		}
		return e
	}
	s, _ := verifServer(be)
	s.LMTP = scenario == 3 || scenario == 4
	var in string
	switch scenario {
	case 3, 4:
		// LMTP (3: backend without LMTPSession, one status for all recipients;
		// 4: per-recipient backend): a chunked transfer is abandoned, its
		// delivery finishes while the next envelope is being built
		in = "LHLO c\r\nMAIL FROM:<a@v>\r\nRCPT TO:<b@v>\r\nBDAT 2\r\nabRSET\r\nMAIL FROM:<a2@v>\r\nRCPT TO:<b2@v>\r\nRCPT TO:<c2@v>\r\nBDAT 2 LAST\r\nxy"
	case 0:
		in = "EHLO c\r\nMAIL FROM:<a@v>\r\nRCPT TO:<b@v>\r\nBDAT 2\r\nabNOOP\r\nRCPT TO:<c@v>\r\n"
	case 1:
		in = "EHLO c\r\nMAIL FROM:<a@v>\r\nRCPT TO:<b@v>\r\nBDAT 2\r\nabRSET\r\nMAIL FROM:<a2@v>\r\nRCPT TO:<b2@v>\r\nBDAT 2 LAST\r\nxy"
	case 2:
		in = "EHLO c\r\nMAIL FROM:<a@v>\r\nRCPT TO:<b@v>\r\nDATA\r\nx\r\n.\r\nEHLO d\r\nNOOP\r\n"
	}
	if scenario == 5 {
		// two connections served at the same time by one Server: whatever
		// they share must be synchronised
		conv := "EHLO c\r\nMAIL FROM:<a@v>\r\nRCPT TO:<b@v>\r\nDATA\r\nx\r\n.\r\nBDAT 2 LAST\r\nabFROB\r\nQUIT\r\n"
		c1 := newConn(&vconn{in: []byte(conv), final: io.EOF}, s)
		c2 := newConn(&vconn{in: []byte(conv), final: io.EOF}, s)
		verifHB(true)
		d1, d2 := make(chan struct{}), make(chan struct{})
		go func() {
			s.handleConn(c1)
			close(d1)
		}()
		go func() {
			s.handleConn(c2)
			close(d2)
		}()
		<-d1
		<-d2
		verifSettle()
		verifObserve("c20r", scenario)
		verifAssert(verifGoroutinesAlive() == 0, "C20.races-no-goroutine-left")
		verifReach("C20.races-end")
		return
	}
	if scenario >= 6 {
		// the read fails in the middle of a chunk (6: the deadline expires and
		// the rest arrives late, 7: connection reset) while the delivery is
		// waiting for the rest: nothing may wait for the other forever
		in = "EHLO c\r\nMAIL FROM:<a@v>\r\nRCPT TO:<b@v>\r\nBDAT 6 LAST\r\nabcdefNOOP\r\n"
	}
	vc := &vconn{in: []byte(in), final: io.EOF}
	if scenario == 0 || scenario == 2 {
		vc.hold = make(chan struct{})
	}
	if scenario == 6 {
		s.ReadTimeout = time.Second
		vc.faults = map[int]error{len(in) - 9: verifTimeoutErr{}}
	}
	if scenario == 7 {
		vc.in = vc.in[:len(in)-9]
		vc.final = errors.New("verif: connection reset by peer")
	}
	c := newConn(vc, s)
	verifHB(true)
	done := make(chan struct{})
	go func() {
		s.handleConn(c)
		close(done)
	}()
	if scenario == 0 || scenario == 2 {
		go func() {
			s.Close()
		}()
	}
	<-done
	verifSettle()
	verifObserve("c20r", scenario)
	verifAssert(verifGoroutinesAlive() == 0, "C20.races-no-goroutine-left")
	verifReach("C20.races-end")
}

// verif_C20_lmtp_case: no deadlock whatever the spelling of the recipients (see
// verifLMTPCase in zz_verif_c13.go).
func verif_C20_lmtp_case()    { verifLMTPCase("C20") }
func verif_C20_two_messages() { verifTwoMessages("C20") }

// verifStartTLSClose: Server.Close from another goroutine while the connection
// upgrades with STARTTLS (handshake succeeds) and greets again inside TLS; the
// backend's Logout is slow (scheduling points around its effect). For C20, under
// the happens-before monitor: no race between the upgrade and Conn.Close, no
// deadlock, no goroutine left. For C08: every session logged out exactly once,
// and only while live.
func verifStartTLSClose(prop string) {
	verifPreemptBound(verifBound(2, 3))
	verifSchedForkBound(verifBound(4, 6))
	be := &vbackend{logoutYield: true}
	s, _ := verifServer(be)
	s.TLSConfig = &tls.Config{}
	pre := nondetBool()
	plain := "EHLO p\r\n"
	if pre {
		plain += "MAIL FROM:<a@v>\r\n"
	}
	plain += "STARTTLS\r\n"
	vc := &vconn{in: []byte(plain), final: io.EOF, tlsIn: []byte("EHLO i\r\nNOOP\r\n"), tlsFinal: io.EOF}
	c := newConn(vc, s)
	if prop == "C20" {
		verifHB(true)
	}
	done := make(chan struct{})
	go func() {
		s.handleConn(c)
		close(done)
	}()
	go func() {
		s.Close()
	}()
	<-done
	verifSettle()
	verifObserve("tlsclose", pre)
	if prop == "C08" {
		live := map[int]bool{}
		n := map[int]int{}
		for _, e := range be.trace {
			switch e.kind {
			case "NewSession":
				live[e.sess] = true
			case "Logout":
				n[e.sess]++
				verifAssert(live[e.sess], prop+".starttls-close-logout-only-for-live-session")
				live[e.sess] = false
			}
		}
		for id := 1; id <= be.sessions; id++ {
			verifAssert(n[id] == 1, prop+".starttls-close-exactly-one-logout-per-session")
		}
	}
	verifAssert(verifGoroutinesAlive() == 0, prop+".starttls-close-no-goroutine-left")
	verifReach(prop + ".starttls-close-end")
}

func verif_C20_starttls_close_stub() { verifStartTLSClose("C20") }

// verif_C20_stop_vs_accept: Shutdown (or Close) starts in another goroutine
// while Serve is still accepting - the listener hands out 0..1 connections
// (peer gone at once, or held open until released) before it goes idle. Under
// the happens-before monitor, which also knows sync.WaitGroup's rule that an
// Add from zero must happen before Wait: no race, no deadlock, Serve returns,
// the stop call returns, nothing is left running and every accepted connection
// has been closed or has finished.
func verif_C20_stop_vs_accept() {
	verifPreemptBound(verifBound(1, 2))
	verifSchedForkBound(verifBound(3, 4))
	n := verifChoice(2)
	l := &vlistener{closed: make(chan struct{})}
	for i := 0; i < n; i++ {
		l.script = append(l.script, []int{3, 2}[verifChoice(2)])
	}
	be := &vbackend{}
	s, _ := verifServer(be)
	useShutdown := nondetBool()
	idle := make(chan struct{})
	l.onIdle = func() { close(idle) }
	verifHB(true)
	stopped := make(chan struct{})
	var stopErr error
	go func() {
		if useShutdown {
			ctx := &vctx{done: make(chan struct{})}
			go func() {
				// the peers go away once the listener has handed out its last
				// connection (or has been closed), while Shutdown waits
				select {
				case <-idle:
				case <-l.closed:
				case <-stopped:
				}
				for _, c := range l.conns {
					c.release()
				}
			}()
			stopErr = s.Shutdown(ctx)
		} else {
			stopErr = s.Close()
		}
		close(stopped)
	}()
	err := s.Serve(l)
	<-stopped
	// whatever was accepted but never released is released now
	for _, c := range l.conns {
		c.release()
	}
	verifSettle()
	verifObserve("c20sva", n, useShutdown)
	// Serve either ran and was ended by the stop call (nil, its listener
	// closed), or found the server closed already and said so
	verifAssert(stopErr == nil && (err == nil || err == ErrServerClosed), "C20.stop-vs-accept-both-return")
	// either way the listener handed to Serve does not stay open behind a
	// closed server (ListenAndServe creates it and has no other owner)
	verifAssert(l.closes >= 1, "C20.stop-vs-accept-listener-closed")
	verifAssert(verifGoroutinesAlive() == 0, "C20.stop-vs-accept-no-goroutine-left")
	verifReach("C20.stop-vs-accept-end")
}

// verif_C20_close_inside_newsession: Server.Close (or Shutdown) called while the
// backend is inside NewSession for a connection - here from within the
// callback itself, which fixes the moment exactly. "Close ends every
// connection exactly once": the session NewSession then returns is logged out
// exactly once all the same, Serve-side bookkeeping ends, nothing is left.
func verif_C20_close_inside_newsession() {
	verifPreemptBound(verifBound(1, 2))
	be := &vbackend{}
	s, _ := verifServer(be)
	how := verifChoice(3)
	be.onNewSession = func(c *Conn) {
		switch how {
		case 0:
			s.Close()
		case 1:
			c.Close()
		case 2:
			go s.Close()
		}
	}
	verifHB(true)
	vc := &vconn{in: []byte("EHLO c\r\nNOOP\r\n"), final: io.EOF}
	c := newConn(vc, s)
	s.handleConn(c)
	verifSettle()
	verifObserve("c20cin", how, be.sessions)
	for id := 1; id <= be.sessions; id++ {
		n := 0
		for _, e := range be.trace {
			if e.kind == "Logout" && e.sess == id {
				n++
			}
		}
		verifAssert(n == 1, "C20.close-inside-newsession-every-session-logged-out-exactly-once")
	}
	verifAssert(vc.closed, "C20.close-inside-newsession-connection-ended")
	verifAssert(verifGoroutinesAlive() == 0, "C20.close-inside-newsession-no-goroutine-left")
	verifReach("C20.close-inside-newsession-end")
}
