package sym

import "testing"

func TestSolverBasic(t *testing.T) {
	for _, kind := range []string{"z3", "z3-new", "cvc5"} {
		s, err := NewSolver(kind, 10000)
		if err != nil {
			t.Fatal(err)
		}
		c := NewCtx()
		x := c.Var("x", 8)
		y := c.Var("y", 8)
		s.Push()
		s.Assert(c.Eq(c.Bin(OpAdd, x, y), c.BV(10, 8)))
		if r := s.CheckWith(c.Cmp(OpUlt, x, c.BV(3, 8))); r != Sat {
			t.Fatalf("%s: want sat got %v %v", kind, r, s.Errors)
		}
		r, m := s.ModelWith([]*Term{x, y}, c.Eq(x, c.BV(7, 8)))
		if r != Sat || m[x] != 7 || m[y] != 3 {
			t.Fatalf("%s: model %v %v %v", kind, r, m, s.Errors)
		}
		if r := s.CheckWith(c.Eq(x, c.BV(7, 8)), c.Eq(y, c.BV(4, 8))); r != Unsat {
			t.Fatalf("%s: want unsat got %v", kind, r)
		}
		s.Pop()
		s.Push()
		b := c.Var("b", 0)
		r, m = s.ModelWith([]*Term{b, x}, c.And(b, c.Eq(c.Zext(x, 64), c.BV(200, 64))))
		if r != Sat || m[b] != 1 || m[x] != 200 {
			t.Fatalf("%s: model2 %v %v %v", kind, r, m, s.Errors)
		}
		s.Pop()
		s.Close()
	}
}
