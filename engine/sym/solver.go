package sym

import (
	"bufio"
	"fmt"
	"io"
	"os"
	"os/exec"
	"strconv"
	"strings"
	"time"
)

// Result of a satisfiability query.
type Result int

const (
	Unsat Result = iota
	Sat
	Unknown
)

func (r Result) String() string { return [...]string{"unsat", "sat", "unknown"}[r] }

// Solver drives one persistent SMT solver process over stdin/stdout.
type Solver struct {
	Name     string
	cmd      *exec.Cmd
	in       io.WriteCloser
	out      *bufio.Reader
	depth    int
	declared []map[*Term]bool // per push level
	Log      io.Writer        // optional transcript
	// statistics
	NSat, NUnsat, NUnknown int
	Time                   time.Duration
	Errors                 []string
	dead                   bool
}

// NewSolver starts a solver. kind: "z3", "z3-new", "cvc5".
func NewSolver(kind string, timeoutMs int) (*Solver, error) {
	var cmd *exec.Cmd
	switch kind {
	case "z3":
		cmd = exec.Command("/usr/bin/z3", "-in", "-smt2")
	case "z3-new":
		cmd = exec.Command("z3-new", "-in", "-smt2")
	case "cvc5":
		cmd = exec.Command("cvc5", "--incremental", "--lang=smt2", fmt.Sprintf("--tlimit-per=%d", timeoutMs))
	default:
		return nil, fmt.Errorf("unknown solver %q", kind)
	}
	in, err := cmd.StdinPipe()
	if err != nil {
		return nil, err
	}
	out, err := cmd.StdoutPipe()
	if err != nil {
		return nil, err
	}
	cmd.Stderr = os.Stderr
	if err := cmd.Start(); err != nil {
		return nil, err
	}
	s := &Solver{Name: kind, cmd: cmd, in: in, out: bufio.NewReaderSize(out, 1<<16)}
	s.declared = []map[*Term]bool{{}}
	if kind == "cvc5" {
		s.send("(set-logic QF_BV)")
		s.send("(set-option :produce-models true)")
	} else {
		s.send("(set-option :print-success false)")
		s.send("(set-option :produce-models true)")
		s.send(fmt.Sprintf("(set-option :timeout %d)", timeoutMs))
	}
	return s, nil
}

func (s *Solver) send(line string) {
	if s.dead {
		return
	}
	if s.Log != nil {
		fmt.Fprintln(s.Log, line)
	}
	if _, err := io.WriteString(s.in, line+"\n"); err != nil {
		s.dead = true
		s.Errors = append(s.Errors, "write: "+err.Error())
	}
}

func (s *Solver) readLine() string {
	if s.dead {
		return "(error \"solver dead\")"
	}
	l, err := s.out.ReadString('\n')
	if err != nil {
		s.dead = true
		s.Errors = append(s.Errors, "read: "+err.Error())
		return "(error \"solver eof\")"
	}
	l = strings.TrimSpace(l)
	if s.Log != nil {
		fmt.Fprintln(s.Log, "; <- "+l)
	}
	return l
}

func (s *Solver) Close() {
	if s.cmd != nil {
		s.in.Close()
		done := make(chan struct{})
		go func() { s.cmd.Wait(); close(done) }()
		select {
		case <-done:
		case <-time.After(2 * time.Second):
			s.cmd.Process.Kill()
		}
		s.cmd = nil
	}
}

func (s *Solver) Push() {
	s.send("(push 1)")
	s.depth++
	s.declared = append(s.declared, map[*Term]bool{})
}

func (s *Solver) Pop() {
	s.send("(pop 1)")
	s.depth--
	s.declared = s.declared[:len(s.declared)-1]
}

func (s *Solver) Depth() int { return s.depth }

func (s *Solver) isDeclared(v *Term) bool {
	for _, m := range s.declared {
		if m[v] {
			return true
		}
	}
	return false
}

func (s *Solver) declareVars(t *Term) {
	var vs []*Term
	Vars(t, map[*Term]bool{}, &vs)
	for _, v := range vs {
		if !s.isDeclared(v) {
			s.send(Decl(v))
			s.declared[len(s.declared)-1][v] = true
		}
	}
}

// Assert adds t at the current level.
func (s *Solver) Assert(t *Term) {
	s.declareVars(t)
	s.send("(assert " + SMT(t) + ")")
}

// Check runs check-sat at the current level. An echo marker keeps the reply
// stream aligned even when the solver printed (error ...) lines for earlier
// commands; any such line makes the answer Unknown (inconclusive).
func (s *Solver) Check() Result {
	t0 := time.Now()
	s.send("(check-sat)")
	s.send("(echo \"<<done>>\")")
	r := Unknown
	got := false
	bad := false
	for {
		l := s.readLine()
		l = strings.Trim(l, "\"")
		if l == "<<done>>" {
			break
		}
		switch {
		case l == "sat":
			r, got = Sat, true
		case l == "unsat":
			r, got = Unsat, true
		case l == "unknown" || l == "timeout":
			r, got = Unknown, true
		case strings.HasPrefix(l, "(error"):
			s.Errors = append(s.Errors, l)
			bad = true
			if s.dead {
				s.NUnknown++
				s.Time += time.Since(t0)
				return Unknown
			}
		case l == "":
		default:
			s.Errors = append(s.Errors, "unexpected solver output: "+l)
			bad = true
		}
	}
	if bad || !got {
		r = Unknown
	}
	switch r {
	case Sat:
		s.NSat++
	case Unsat:
		s.NUnsat++
	default:
		s.NUnknown++
	}
	s.Time += time.Since(t0)
	return r
}

// CheckWith checks satisfiability of the current assertions plus extra, in a
// temporary scope. Variables of extra are declared in the enclosing scope so
// they survive the pop.
func (s *Solver) CheckWith(extra ...*Term) Result {
	for _, t := range extra {
		s.declareVars(t)
	}
	s.send("(push 1)")
	for _, t := range extra {
		s.send("(assert " + SMT(t) + ")")
	}
	r := s.Check()
	s.send("(pop 1)")
	return r
}

// ModelWith is CheckWith followed, when sat, by get-value on vars.
func (s *Solver) ModelWith(vars []*Term, extra ...*Term) (Result, map[*Term]uint64) {
	for _, t := range extra {
		s.declareVars(t)
	}
	for _, v := range vars {
		s.declareVars(v)
	}
	s.send("(push 1)")
	for _, t := range extra {
		s.send("(assert " + SMT(t) + ")")
	}
	r := s.Check()
	var m map[*Term]uint64
	if r == Sat {
		m = s.getValues(vars)
	}
	s.send("(pop 1)")
	return r, m
}

func (s *Solver) getValues(vars []*Term) map[*Term]uint64 {
	m := map[*Term]uint64{}
	const chunk = 200
	for i := 0; i < len(vars); i += chunk {
		j := i + chunk
		if j > len(vars) {
			j = len(vars)
		}
		var sb strings.Builder
		sb.WriteString("(get-value (")
		for _, v := range vars[i:j] {
			sb.WriteString(v.Name)
			sb.WriteByte(' ')
		}
		sb.WriteString("))")
		s.send(sb.String())
		// read balanced s-expression
		var text strings.Builder
		depth, started := 0, false
		for {
			l := s.readLine()
			if strings.HasPrefix(l, "(error") {
				s.Errors = append(s.Errors, l)
				return m
			}
			text.WriteString(l)
			text.WriteByte(' ')
			for _, ch := range l {
				if ch == '(' {
					depth++
					started = true
				} else if ch == ')' {
					depth--
				}
			}
			if started && depth <= 0 {
				break
			}
		}
		toks := strings.Fields(strings.NewReplacer("(", " ", ")", " ").Replace(text.String()))
		byName := map[string]*Term{}
		for _, v := range vars[i:j] {
			byName[v.Name] = v
		}
		for k := 0; k+1 < len(toks); k++ {
			v, ok := byName[toks[k]]
			if !ok {
				continue
			}
			val := toks[k+1]
			switch {
			case val == "true":
				m[v] = 1
			case val == "false":
				m[v] = 0
			case strings.HasPrefix(val, "#x"):
				u, _ := strconv.ParseUint(val[2:], 16, 64)
				m[v] = u
			case strings.HasPrefix(val, "#b"):
				u, _ := strconv.ParseUint(val[2:], 2, 64)
				m[v] = u
			case val == "_" && k+3 < len(toks) && strings.HasPrefix(toks[k+2], "bv"):
				u, _ := strconv.ParseUint(toks[k+2][2:], 10, 64)
				m[v] = u
			}
			k++
		}
	}
	return m
}
