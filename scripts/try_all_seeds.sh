#!/bin/bash
# Applies every seeded change under /verif/seeded to /repo in turn
# (git -C /repo apply; check; git -C /repo checkout -- .) and runs the quick check of
# the property it was seeded for. Prints one line per seed.
cd /verif
for d in seeded/*/; do
  name=$(basename $d); id=${name%%-*}
  [ -f $d/patch.diff ] || continue
  if ! git -C /repo apply --check $PWD/$d/patch.diff 2>/dev/null; then echo "$name: PATCH DOES NOT APPLY"; continue; fi
  git -C /repo apply $PWD/$d/patch.diff
  out=$(VERIF_BUDGET_S=280 timeout 900 ./bin/check $id --tier quick 2>&1)
  rc=$?
  git -C /repo checkout -q -- .
  v=$(echo "$out" | grep -c "^VIOLATION")
  lab=$(echo "$out" | grep -E "^violation" | head -1 | sed -E 's/.*label=([^ ]+).*/\1/; s/^violation: harness=[^ ]+ (race:[^(]+).*/\1/' | cut -c1-70)
  echo "$name: exit=$rc violations=$v first=$lab"
done
git -C /repo status --short | head -3
