#!/bin/sh
# Build the checker from files on disk only (offline).
set -e
export GOFLAGS=-mod=mod GOPROXY=off GOSUMDB=off GOTOOLCHAIN=local CGO_ENABLED=0
cd /verif/engine
mkdir -p /verif/bin /verif/.work /verif/evidence /verif/replays
go build -o /verif/bin/check ./cmd/check
echo "built /verif/bin/check"
