package main

// Per-property statements of bounds, what lies outside them, stubs and
// assumptions; copied into the evidence file next to the measured counts.
type propMeta struct {
	Bounds      []string
	Outside     []string
	Stubs       []string
	Assumptions []string
}

var harnessMeta = map[string]propMeta{}
