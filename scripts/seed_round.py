#!/usr/bin/env python3
# usage: seed_round.py <suffix> <style-shift> [2 / 3 = second / third style set]
# Prepares one scratch worktree per property under /tmp/wt/<ID><suffix> (outside /repo and
# /verif) plus the task text handed to the seeding sub-agent: the property text, the
# worktree, generic instructions - nothing from /verif.
import json,os,subprocess,sys
suffix=sys.argv[1]; shift=int(sys.argv[2])
styles=["a REFACTORING that looks behaviour-preserving (extracting a helper, merging two branches, reordering checks, replacing a loop by a library call) but is not",
"a PERFORMANCE optimisation (fewer allocations, avoiding a copy, caching or pooling a value, reading in bulk) that is wrong in a corner case",
"a change to ERROR HANDLING or cleanup (an early return, a deferred call, which error wins, what is reset on failure) that is wrong for one particular failure",
"a small FEATURE or leniency added for interoperability (accepting one more syntax, tolerating a quirk of some client/server, a new option) that opens a hole"]
styles2=["a change involving the INTERPLAY OF TWO FEATURES (for example LMTP with CHUNKING, pipelining with errors, STARTTLS with AUTH, RSET in the middle of a transaction, timeouts with partial input, size limits with chunks) where each feature is still fine on its own",
"a MODERNISATION (replacing hand-written code by a standard-library helper such as strings.Cut/Fields/EqualFold/TrimFunc/Title, bufio.Scanner, io.CopyN/LimitReader/ReadFull, bytes helpers, or context-based cancellation) whose semantics differ subtly from the code it replaces",
"a DEFENSIVE HARDENING or validation that over- or under-corrects (a new limit, a stricter or looser check, sanitising, normalising case or whitespace, an off-by-one at a boundary) and thereby changes behaviour for a rare but legitimate or hostile input",
"a change in STATE LIFETIME (when a field is reset, initialised, cached or reused across transactions, sessions, a second EHLO, STARTTLS, or a retried call) that leaves stale or prematurely cleared state in one particular sequence"]
styles3=["a change around TIMEOUTS, DEADLINES or PARTIAL I/O (short reads or writes, an error returned together with data, a deadline that expires in the middle of an operation, a write that fails) that mishandles one such event",
"a change in NUMERIC handling (sizes, counters, limits, offsets, integer conversion or overflow, an off-by-one at a boundary, the parsing or printing of numbers) that is wrong at a boundary value",
"a change in TEXT handling (letter case, Unicode, white space, quoting and escaping, trimming, splitting, joining) that is wrong for an unusual but legal string",
"a change in CONCURRENCY or LIFECYCLE handling (locks, goroutines, channels, Close/Shutdown, sync.Once/Pool, deferred cleanup, the order of teardown steps) that is wrong in one particular interleaving or ordering"]
if len(sys.argv)>3 and sys.argv[3]=='2': styles=styles2
if len(sys.argv)>3 and sys.argv[3]=='3': styles=styles3
base='''Your job: produce ONE realistic code change ("seeded defect") to the Go library emersion/go-smtp (an ESMTP/LMTP client and server library) that BREAKS the property below, while the library still compiles and its existing test suite still passes.

Work ONLY inside the scratch git worktree /tmp/wt/@ID@ (a checkout of the library). Do NOT read or touch /verif or /repo. Put your deliverables in /tmp/wt/@ID@-out/.

The property text is in /tmp/wt/@ID@-prop.txt (read it first).

Requirements for the change:
- It must be a plausible bug a maintainer could introduce (a small edit to non-test .go files of the library) - not a blatant sabotage. Style for this one: present it as @STYLE@.
- It must need something SPECIFIC to manifest: an unusual input, a particular segmentation of the network stream, a particular interleaving or timing, a fault at a particular point, a multi-step sequence of operations, state left over from an earlier step, a boundary value, an unusual server/client configuration, or two cooperating sites that each look fine alone. It must NOT be exposed by ordinary use (the plain happy path must keep working). Prefer a trigger that somebody testing the obvious cases would not think of.
- The library must still build and the existing tests, unedited, must still pass. Use this exact environment in every shell call: `export GOFLAGS=-mod=mod GOPROXY=off GOSUMDB=off GOTOOLCHAIN=local` and run `cd /tmp/wt/@ID@ && go build ./... && go test -vet=off -count=1 ./...`. (There is no network. TestServerAcceptErrorHandling is occasionally flaky on the untouched tree; re-run once if only that one fails.)
- Write a demonstration: a new Go test file (package smtp, in-package, e.g. /tmp/wt/@ID@/zz_demo_test.go) with a test that FAILS with your change applied and PASSES on the unchanged code. Verify both by saving `git diff > /tmp/wt/@ID@-out/patch.diff` and using `git apply -R` / `git apply` of that patch (do NOT use git stash: the stash is shared between worktrees). The demo test may use unexported identifiers of package smtp and may use net.Pipe or a local TCP listener on 127.0.0.1; `go test -race` works here (CGO_ENABLED=1) if you need it.

Deliverables in /tmp/wt/@ID@-out/:
1. patch.diff - `git diff` of the library change only (NOT including the demo test), applicable with `git apply` at the repository root.
2. demo_test.go - the demonstration test file (a copy).
3. notes.md - which behaviour breaks, what exactly is needed for it to manifest, and the exact commands you ran with their outcome (existing tests pass with the change; demo fails with the change and passes without).

Leave the worktree with the change applied and the demo test present. Keep your final answer short: a one-paragraph summary of the change and what it needs to manifest.
'''
os.makedirs('/tmp/wt',exist_ok=True)
i=0
for l in open('/verif/properties.jsonl'):
    p=json.loads(l); pid=p['id']; wid=pid+suffix
    subprocess.run(['git','-C','/repo','worktree','add','-q','/tmp/wt/'+wid,'HEAD'],check=True)
    os.makedirs('/tmp/wt/%s-out'%wid,exist_ok=True)
    open('/tmp/wt/%s-prop.txt'%wid,'w').write("PROPERTY %s: %s\n\nSTATEMENT: %s\n\nQUANTIFIED OVER: %s\n" % (pid,p['title'],p['statement'],p['quantifier']['text']))
    open('/tmp/wt/%s-task.txt'%wid,'w').write(base.replace('@ID@',wid).replace('@STYLE@',styles[(i+shift)%4]))
    i+=1
print("prepared",i)
