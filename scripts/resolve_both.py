import sys,re
for f in sys.argv[1:]:
    s=open(f).read()
    out=[];i=0
    while True:
        a=s.find('<<<<<<< ours\n',i)
        if a<0: out.append(s[i:]); break
        b=s.find('=======\n',a); c=s.find('>>>>>>> theirs\n',b)
        out.append(s[i:a]); out.append(s[a+13:b]); out.append(s[b+8:c]); i=c+15
    open(f,'w').write(''.join(out))
