package smtp

import (
	"io"
	"strconv"
)

// verif_C05_refused: a BDAT command that the server refuses (no envelope, bad
// LAST token, too many arguments, over the size limit) followed, as RFC 3030
// prescribes, by its chunk, whose octets are a complete command line. The
// declared octets must be discarded - never executed - and the next command
// is the one after them.
func verif_C05_refused() {
	verifPreemptBound(0)
	state := verifChoice(3) // 0: greeted only, 1: MAIL ok but RCPT rejected, 2: envelope ok
	kind := verifChoice(4)  // 0 plain / 1 bad LAST token / 2 too many args / 3 over limit
	be := &vbackend{}
	be.rcptErr = func(to string) error {
		if state == 1 {
			return verifErrBackend()
		}
		return nil
	}
	var gotData []byte
	var dataErr error
	be.dataFn = func(_ *vsession, r io.Reader) error {
		gotData, dataErr = verifReadAll(r, 4)
		if dataErr == io.EOF {
			return nil
		}
		return dataErr
	}
	s, lg := verifServer(be)
	pre := "EHLO c\r\n"
	npre := 2
	if state >= 1 {
		pre += "MAIL FROM:<s@v>\r\nRCPT TO:<r@v>\r\n"
		npre = 4
	}
	payload := "MAIL FROM:<bait@v>\r\n"
	// two payload octets are arbitrary (binary transparency of the discard)
	pb := []byte(payload)
	pb[5] = nondetByte()
	pb[len(pb)-1] = nondetByte()
	n := strconv.Itoa(len(pb))
	var line string
	refused := true
	switch kind {
	case 0:
		line = "BDAT " + n + " LAST\r\n"
		refused = state != 2
	case 1:
		line = "BDAT " + n + " FOO\r\n"
	case 2:
		line = "BDAT " + n + " LAST X\r\n"
	case 3:
		s.MaxMessageBytes = int64(len(pb) - 1)
		line = "BDAT " + n + " LAST\r\n"
		refused = true
	}
	in := []byte(pre + line)
	in = append(in, pb...)
	in = append(in, "MAIL FROM:<marker@v>\r\nNOOP\r\n"...)
	vc, _, err := verifServe(s, in, io.EOF)
	reps, wf := verifParseReplies(vc.out)
	verifObserve("c05r", state, kind, wf, len(reps), len(be.trace), lg.lines)
	verifAssert(err == nil && lg.lines == 0, "C05.refused-clean")
	verifAssert(wf, "C05.refused-replies-wellformed")
	if !wf {
		return
	}
	verifAssert(be.find("Mail", "bait@v") < 0, "C05.refused-chunk-never-executed")
	verifAssert(be.find("Mail", "marker@v") >= 0, "C05.command-after-refused-chunk-executes")
	verifAssert(len(reps) == npre+3, "C05.one-reply-per-bdat")
	if len(reps) == npre+3 {
		if refused {
			verifReach("C05.refused")
			verifAssert(reps[npre].code/100 == 5, "C05.refusal-is-5xx")
			verifAssert(be.count("Data") == 0 || kind == 3, "C05.refused-bdat-no-data")
		} else {
			verifReach("C05.accepted")
			verifAssert(reps[npre].code == 250, "C05.accepted-bdat-250")
			verifAssert(string(gotData) == string(pb) && dataErr == io.EOF, "C05.accepted-chunk-binary-exact")
		}
		verifAssert(reps[npre+2].code == 250, "C05.noop-after")
	}
	verifAssert(verifGoroutinesAlive() == 0, "C05.no-goroutine-left")
}

// verif_C05_chunks: every division of a message of arbitrary octets into
// 1..K chunks of sizes 0..2, LAST on the final chunk (empty or not), each
// chunk followed by the next command; segmentation per run.
func verif_C05_chunks() {
	verifPreemptBound(0)
	K := verifBound(2, 3)
	nch := nondetInt(1, K)
	seg := verifChoice(3)
	var all []byte
	in := []byte("EHLO c\r\nMAIL FROM:<s@v>\r\nRCPT TO:<r@v>\r\n")
	for i := 0; i < nch; i++ {
		sz := nondetInt(0, 2)
		chunk := nondetBytesN(sz)
		all = append(all, chunk...)
		line := "BDAT " + strconv.Itoa(sz)
		if i == nch-1 {
			line += " LAST"
		}
		in = append(in, line+"\r\n"...)
		in = append(in, chunk...)
	}
	in = append(in, "MAIL FROM:<marker@v>\r\n"...)
	var got []byte
	var rerr error
	be := &vbackend{}
	be.dataFn = func(_ *vsession, r io.Reader) error {
		got, rerr = verifReadAll(r, 3)
		if rerr == io.EOF {
			return nil
		}
		return rerr
	}
	s, lg := verifServer(be)
	s.MaxLineLength = 30
	vc := &vconn{in: in, final: io.EOF}
	switch seg {
	case 1:
		vc.seg = 1
	case 2:
		vc.seg = 7
	}
	c := newConn(vc, s)
	err := s.handleConn(c)
	verifSettle()
	reps, wf := verifParseReplies(vc.out)
	verifObserve("c05c", nch, seg, all, got, wf, len(reps), rerr == io.EOF)
	verifAssert(err == nil && lg.lines == 0, "C05.chunks-clean")
	verifAssert(wf && len(reps) == 4+nch+1, "C05.one-reply-per-chunk")
	verifAssert(be.count("Data") == 1, "C05.single-data-call")
	verifAssert(string(got) == string(all), "C05.concatenation-binary-exact")
	verifAssert(rerr == io.EOF, "C05.eof-after-last")
	verifAssert(be.find("Mail", "marker@v") >= 0, "C05.next-command-after-declared-size")
	verifAssert(be.count("Mail") == 2, "C05.no-payload-octet-executed")
	if wf && len(reps) == 4+nch+1 {
		for i := 0; i < nch; i++ {
			verifAssert(reps[4+i].code == 250, "C05.chunk-accepted")
		}
	}
	verifAssert(verifGoroutinesAlive() == 0, "C05.no-goroutine-left")
	verifReach("C05.chunks-end")
}

// verif_C05_refused_mid: a refused BDAT command in the middle of a chunked
// transfer (bad LAST token or too many arguments, chunk follows as RFC 3030
// prescribes). The refused chunk is discarded; the transfer continues with the
// following chunks: one Data call, the concatenation of the accepted chunks.
func verif_C05_refused_mid() {
	verifPreemptBound(0)
	kind := verifChoice(2)
	c1 := nondetBytesN(2)
	bad := nondetBytesN(2)
	c3 := nondetBytesN(2)
	c4 := nondetBytesN(1)
	in := []byte("EHLO c\r\nMAIL FROM:<s@v>\r\nRCPT TO:<r@v>\r\nBDAT 2\r\n")
	in = append(in, c1...)
	in = append(in, []string{"BDAT 2 FOO\r\n", "BDAT 2 LAST X\r\n"}[kind]...)
	in = append(in, bad...)
	in = append(in, "BDAT 2\r\n"...)
	in = append(in, c3...)
	in = append(in, "BDAT 1 LAST\r\n"...)
	in = append(in, c4...)
	in = append(in, "NOOP\r\n"...)
	var gots [][]byte
	var rerrs []error
	be := &vbackend{}
	be.dataFn = func(_ *vsession, r io.Reader) error {
		b, e := verifReadAll(r, 3)
		gots = append(gots, b)
		rerrs = append(rerrs, e)
		if e == io.EOF {
			return nil
		}
		return e
	}
	s, lg := verifServer(be)
	vc, _, err := verifServe(s, in, io.EOF)
	reps, wf := verifParseReplies(vc.out)
	verifObserve("c05m", kind, wf, len(reps), len(gots), lg.lines)
	verifAssert(err == nil && wf && len(reps) == 9, "C05.mid-one-reply-per-command")
	if !wf || len(reps) != 9 {
		return
	}
	verifAssert(reps[4].code == 250 && reps[5].code == 501, "C05.mid-refusal-is-501")
	// RFC 3030 leaves the fate of the message open after a refused chunk: the
	// server may fail it or continue. What it must not do is present a
	// truncated or spliced message as complete.
	want := append(append(append([]byte{}, c1...), c3...), c4...)
	completed := 0
	for i, e := range rerrs {
		if e == io.EOF {
			completed++
			verifAssert(string(gots[i]) == string(want), "C05.mid-complete-message-is-the-concatenation")
		}
	}
	verifAssert(len(gots) == 1, "C05.mid-single-data-call")
	if reps[7].code == 250 {
		verifReach("C05.mid-continued")
		verifAssert(completed == 1, "C05.mid-250-means-complete")
	}
	verifAssert(reps[8].code == 250, "C05.mid-command-mode-after")
	verifAssert(verifGoroutinesAlive() == 0, "C05.mid-no-goroutine-left")
}

// verif_C05_limiter: BDAT payloads with LF-free runs shorter and longer than
// MaxLineLength, the command line and its chunk in one segment or in separate
// segments, then a short command. "No line-length limit" applies to payloads;
// the command after the transfer must not be refused for its length.
func verif_C05_limiter() {
	verifPreemptBound(0)
	max := 16
	run := nondetInt(max-4, max+6) // chunk size: an LF-free run around the limit
	segMode := verifChoice(5)      // 0 command and chunk in separate segments, 1 one segment, 2 command + all but the last chunk octet, then the rest, 3 command + whole chunk, then the next command, 4 command + whole chunk + the first two octets of the next command
	sameSeg := segMode == 1
	last := nondetBool()
	payload := make([]byte, run)
	for i := range payload {
		payload[i] = 'p'
	}
	// one arbitrary octet in the payload (may be LF, which resets the limiter's count)
	payload[nondetInt(0, run-1)] = nondetByte()
	line := "BDAT " + strconv.Itoa(run)
	if last {
		line += " LAST"
	}
	line += "\r\n"
	head := "EHLO c\r\nMAIL FROM:<s@v>\r\nRCPT TO:<r@v>\r\n"
	in := []byte(head + line)
	cutAt := len(in)
	in = append(in, payload...)
	in = append(in, "NOOP\r\n"...)
	var got []byte
	be := &vbackend{}
	be.dataFn = func(_ *vsession, r io.Reader) error {
		b, e := verifReadAll(r, 5)
		got = b
		if e == io.EOF {
			return nil
		}
		return e
	}
	s, lg := verifServer(be)
	s.MaxLineLength = max + 8 // the command lines themselves (<= 21 octets) fit
	max = s.MaxLineLength
	vc := &vconn{in: in, final: io.EOF}
	switch segMode {
	case 0:
		vc.cuts = []int{len(head), cutAt, cutAt + run}
	case 1:
		vc.cuts = []int{len(head)}
	case 2:
		vc.cuts = []int{len(head), cutAt + run - 1, cutAt + run}
	case 3:
		vc.cuts = []int{len(head), cutAt + run}
	case 4:
		vc.cuts = []int{len(head), cutAt + run + 2}
	}
	c := newConn(vc, s)
	err := s.handleConn(c)
	verifSettle()
	reps, wf := verifParseReplies(vc.out)
	verifObserve("c05l", run, segMode, last, wf, len(reps), lg.lines)
	_ = sameSeg
	verifAssert(err == nil && wf, "C05.limiter-clean")
	if !wf {
		return
	}
	tooLong := false
	for _, r := range reps {
		if r.code == 500 && len(r.lines) == 1 && r.lines[0] == "5.4.0 Too long line, closing connection" {
			tooLong = true
		}
	}
	// (octets of the chunk that arrive in the same read as the BDAT line used
	// to be counted as line octets: fixed, see known_findings.json)
	verifAssert(!tooLong, "C05.no-line-limit-on-chunk-payload")
	if tooLong {
		return
	}
	verifAssert(len(reps) == 6 && reps[4].code == 250 && reps[5].code == 250, "C05.limiter-command-after-transfer-accepted")
	if last {
		verifAssert(string(got) == string(payload), "C05.limiter-payload-exact")
	}
	verifReach("C05.limiter-end")
}

// verif_C05_cut: the octet stream ends (connection lost) or stalls (read
// timeout) strictly inside a chunk's declared octets, LAST or not. EOF is
// never presented to the backend, and no 2xx is given for the cut chunk.
func verif_C05_cut() {
	verifPreemptBound(0)
	last := nondetBool()
	n := 3
	have := nondetInt(0, n-1) // octets of the chunk that arrive
	payload := nondetBytesN(have)
	line := "BDAT 3"
	if last {
		line += " LAST"
	}
	in := []byte("EHLO c\r\nMAIL FROM:<s@v>\r\nRCPT TO:<r@v>\r\nBDAT 2\r\nab" + line + "\r\n")
	in = append(in, payload...)
	var final error = io.EOF
	if nondetBool() {
		final = verifTimeoutErr{}
	}
	var got []byte
	var rerr error
	be := &vbackend{}
	be.dataFn = func(_ *vsession, r io.Reader) error {
		got, rerr = verifReadAll(r, 2)
		if rerr == io.EOF {
			return nil
		}
		return rerr
	}
	s, _ := verifServer(be)
	vc, _, _ := verifServe(s, in, final)
	reps, wf := verifParseReplies(vc.out)
	verifObserve("c05cut", last, have, final == io.EOF, wf, len(reps), len(got), rerr == io.EOF)
	verifAssert(wf, "C05.cut-wellformed")
	verifAssert(be.count("Data") == 1, "C05.cut-one-data-call")
	verifAssert(rerr != nil && rerr != io.EOF, "C05.cut-chunk-never-eof")
	verifAssert(verifIsPrefix(got, append([]byte("ab"), payload...)), "C05.cut-octets-are-a-prefix")
	if wf && len(reps) > 5 {
		for _, r := range reps[5:] {
			verifAssert(r.code/100 != 2, "C05.cut-chunk-no-positive-reply")
		}
	}
	verifAssert(verifGoroutinesAlive() == 0, "C05.cut-no-goroutine-left")
	verifReach("C05.cut-end")
}

// verif_C05_data_equiv: the same message (two lines, three arbitrary octets)
// is sent with DATA and with BDAT under an arbitrary chunking (1..3 chunks, cut
// points arbitrary, an empty chunk allowed), under a size limit around the
// message size, with an arbitrary backend verdict, in SMTP and both LMTP
// flavours. The backend must read the same octets and end the same way, the
// final reply has the same code and text, and the callback sequence is the
// same: chunking is framing only.
func verif_C05_data_equiv() {
	verifPreemptBound(0)
	verifSchedForkBound(0)
	x, y, z := nondetByte(), nondetByte(), nondetByte()
	for _, ch := range []byte{x, y, z} {
		assume(ch != '\r' && ch != '\n')
	}
	assume(x != '.' && z != '.')
	msg := []byte{x, y, '\r', '\n', z, '\r', '\n'}
	mode := verifChoice(3) // 0 SMTP, 1 LMTP plain session, 2 LMTP per-recipient session
	limit := []int64{0, int64(len(msg)) - 1, int64(len(msg)), int64(len(msg)) + 1}[verifChoice(4)]
	reject := nondetBool()
	c1 := nondetInt(0, len(msg))
	c2 := nondetInt(c1, len(msg))
	type obs struct {
		body  []byte
		rerr  error
		final []vreply
		kinds []string
	}
	run := func(bdat bool) obs {
		var o obs
		be := &vbackend{lmtpSession: mode == 2}
		consume := func(r io.Reader) error {
			o.body, o.rerr = verifReadAll(r, 3)
			if o.rerr != io.EOF {
				return o.rerr
			}
			if reject {
				return verifErrBackend()
			}
			return nil
		}
		be.dataFn = func(_ *vsession, r io.Reader) error { return consume(r) }
		be.lmtpFn = func(_ *vsession, r io.Reader, st StatusCollector) error { return consume(r) }
		s, _ := verifServer(be)
		s.LMTP = mode != 0
		s.MaxMessageBytes = limit
		hello := "EHLO c\r\n"
		if s.LMTP {
			hello = "LHLO c\r\n"
		}
		in := hello + "MAIL FROM:<s@v>\r\nRCPT TO:<r@v>\r\n"
		nfinal := 4 // index of the first reply that belongs to the transfer
		if bdat {
			in += "BDAT " + strconv.Itoa(c1) + "\r\n" + string(msg[:c1])
			in += "BDAT " + strconv.Itoa(c2-c1) + "\r\n" + string(msg[c1:c2])
			in += "BDAT " + strconv.Itoa(len(msg)-c2) + " LAST\r\n" + string(msg[c2:])
		} else {
			in += "DATA\r\n" + string(msg) + ".\r\n"
		}
		in += "NOOP\r\n"
		vc, _, _ := verifServe(s, []byte(in), io.EOF)
		reps, wf := verifParseReplies(vc.out)
		verifAssert(wf && len(reps) > nfinal, "C05.equiv-replies-wellformed")
		if wf && len(reps) > nfinal {
			o.final = reps[nfinal:]
		}
		for _, e := range be.trace {
			o.kinds = append(o.kinds, e.kind)
		}
		return o
	}
	d := run(false)
	b := run(true)
	verifObserve("c05eq", mode, limit, reject, c1, c2, len(d.body), len(b.body), len(d.final), len(b.final))
	if limit == 0 || int64(len(msg)) <= limit {
		verifReach("C05.equiv-fits")
		verifAssert(string(d.body) == string(b.body) && string(b.body) == string(msg), "C05.equiv-same-octets")
		verifAssert(d.rerr == io.EOF && b.rerr == io.EOF, "C05.equiv-both-complete")
		// DATA: 354, final, NOOP. BDAT: 250 250 final NOOP.
		verifAssert(len(d.final) == 3 && len(b.final) == 4, "C05.equiv-reply-counts")
		if len(d.final) == 3 && len(b.final) == 4 {
			fd, fb := d.final[1], b.final[2]
			verifAssert(fd.code == fb.code && fd.hasEn == fb.hasEn && fd.enh == fb.enh && len(fd.lines) == len(fb.lines), "C05.equiv-same-final-reply")
			verifAssert((fd.code == 250) == !reject, "C05.equiv-final-reply-is-the-backends-verdict")
			verifAssert(d.final[2].code == 250 && b.final[3].code == 250, "C05.equiv-command-mode-after")
		}
		verifAssert(len(d.kinds) == len(b.kinds), "C05.equiv-same-callbacks")
		if len(d.kinds) == len(b.kinds) {
			for i := range d.kinds {
				verifAssert(d.kinds[i] == b.kinds[i], "C05.equiv-same-callbacks")
			}
		}
	} else {
		verifReach("C05.equiv-too-large")
		verifAssert(d.rerr != io.EOF && b.rerr != io.EOF, "C05.equiv-neither-complete")
		verifAssert(int64(len(d.body)) <= limit && int64(len(b.body)) <= limit, "C05.equiv-never-more-than-the-limit")
	}
	verifAssert(verifGoroutinesAlive() == 0, "C05.equiv-no-goroutine-left")
}

// verif_C05_size_syntax: the chunk size is 1*DIGIT, decimal (RFC 3030). Sizes
// written with leading zeros frame exactly the declared number of octets;
// anything that is not all digits (0x.., 0o.., 0b.., digit separators, a sign)
// is refused with 501 and delivers nothing. The chunk looks like a command, so
// that a wrong count shows as an extra or a missing reply.
func verif_C05_size_syntax() {
	verifPreemptBound(0)
	sizes := []string{"10", "010", "0010", "08", "012", "0x0A", "0XA", "0o12", "0b1010", "1_0", "+10", "1e1"}
	decimal := []int{10, 10, 10, 8, 12, -1, -1, -1, -1, -1, -1, -1}
	k := verifChoice(len(sizes))
	payload := "NOOP\r\nNOOP\r\nNOOP\r\n" // 18 octets of which the chunk takes the first n
	var got []byte
	be := &vbackend{}
	be.dataFn = func(_ *vsession, r io.Reader) error {
		got, _ = verifReadAll(r, 4)
		return nil
	}
	s, _ := verifServer(be)
	in := "EHLO c\r\nMAIL FROM:<s@v>\r\nRCPT TO:<r@v>\r\nBDAT " + sizes[k] + " LAST\r\n" + payload
	vc, _, _ := verifServe(s, []byte(in), io.EOF)
	reps, wf := verifParseReplies(vc.out)
	verifObserve("c05size", k, wf, len(reps), len(got))
	verifAssert(wf && len(reps) >= 5, "C05.size-syntax-replies")
	if !wf || len(reps) < 5 {
		return
	}
	n := decimal[k]
	if n >= 0 {
		verifReach("C05.size-syntax-decimal")
		verifAssert(reps[4].code == 250 && string(got) == payload[:n], "C05.size-syntax-declared-octets-delivered")
		// what follows the chunk: payload[n:] - "OOP\r\nNOOP\r\n" (n=8: 500, 250), "\nNOOP\r\n"...
		rest := payload[n:]
		lines := 0
		for i := 0; i < len(rest); i++ {
			if rest[i] == '\n' {
				lines++
			}
		}
		verifAssert(len(reps) == 5+lines, "C05.size-syntax-exactly-the-declared-octets-consumed")
	} else {
		verifReach("C05.size-syntax-refused")
		verifAssert(reps[4].code == 501 && be.count("Data") == 0, "C05.size-syntax-not-a-decimal-number-refused")
	}
}
