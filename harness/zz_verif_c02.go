package smtp

import (
	"errors"
	"fmt"
	"io"
	"net"
	"time"
)

// verif_C02_resume: a DATA transfer whose body contains a bait command line
// and four arbitrary octets around a '.' (so that every terminator look-alike
// <LF>.<LF>, <LF>.<CRLF>, <CRLF>.<LF>, <CR>.<CR> and the genuine <CRLF>.<CRLF>
// are among the inputs), followed by the real end marker and a marker command.
// Backend behaviour, size limit and server flavour are harness inputs.
//
// Oracle (refUnstuff over the whole octet stream after "DATA<CRLF>"): the
// message ends at the first genuine marker; exactly the lines after it are
// executed as commands. So Mail(bait) is called iff the bait line lies after
// the true end, Mail(marker) is always called, and nothing but Reset happens
// between the Data callback and the next Mail.
func verif_C02_resume() {
	mode := verifChoice(3) // 0 SMTP, 1 LMTP plain session, 2 LMTP per-recipient session
	a, b, c, d := byte('\r'), nondetByte(), nondetByte(), nondetByte()
	if verifBound(0, 1) == 1 {
		a = nondetByte()
		assume(a < 0x80)
	}
	assume(b < 0x80 && c < 0x80 && d < 0x80)
	pre := "xy"
	bait := "MAIL FROM:<bait@v>\r\n"
	tail := "z\r\n.\r\n"
	marker := "MAIL FROM:<marker@v>\r\nNOOP\r\n"
	stream := []byte(pre)
	stream = append(stream, a, b, '.', c, d)
	baitOff := len(stream) + 2
	stream = append(stream, "\r\n"+bait+tail+marker...)

	body, end, ok := refUnstuff(stream)
	assume(ok)
	msgLen := len(body)

	be := &vbackend{lmtpSession: mode == 2}
	s, _ := verifServer(be)
	s.LMTP = mode != 0
	limitCase := verifChoice(5)
	switch limitCase {
	case 0:
		s.MaxMessageBytes = 0
	case 1:
		s.MaxMessageBytes = int64(msgLen - 1)
	case 2:
		s.MaxMessageBytes = int64(msgLen)
	case 3:
		s.MaxMessageBytes = int64(msgLen + 1)
	case 4:
		// the limit ANYWHERE inside the message - in particular at a line
		// boundary in front of the arbitrary octets, where the octet that no
		// longer fits is the dot of a stuffed line or of a look-alike (with a
		// backend that reads everything and has no verdict of its own)
		s.MaxMessageBytes = int64(nondetInt(1, msgLen-2))
	}
	readMode := verifChoice(4) // 0 all, 1 two octets, 2 nothing, 3 exactly k octets (k arbitrary, one octet per Read)
	if limitCase == 4 {
		assume(readMode == 0)
	}
	kstop := 0
	if readMode == 3 {
		lo := verifBound(msgLen-3, msgLen-7)
		if lo < 1 {
			lo = 1
		}
		kstop = nondetInt(lo, msgLen)
	}
	retMode := verifChoice(3) // 0 nil, 1 SMTPError, 2 plain error
	if limitCase == 4 {
		assume(retMode == 0)
	}
	consume := func(r io.Reader) error {
		var rerr error
		switch readMode {
		case 0:
			_, rerr = verifReadAll(r, 3)
		case 1:
			buf := make([]byte, 2)
			_, rerr = r.Read(buf)
		case 3:
			buf := make([]byte, 1)
			for i := 0; i < kstop && rerr == nil; i++ {
				_, rerr = r.Read(buf)
			}
		}
		if rerr != nil && rerr != io.EOF {
			return rerr
		}
		switch retMode {
		case 1:
			return &SMTPError{Code: 550, EnhancedCode: EnhancedCode{5, 1, 1}, Message: "rejected"}
		case 2:
			return errors.New("backend failure")
		}
		return nil
	}
	be.dataFn = func(_ *vsession, r io.Reader) error { return consume(r) }
	be.lmtpFn = func(_ *vsession, r io.Reader, st StatusCollector) error { return consume(r) }

	hello := "EHLO c\r\n"
	if s.LMTP {
		hello = "LHLO c\r\n"
	}
	in := []byte(hello + "MAIL FROM:<s@v>\r\nRCPT TO:<r@v>\r\nDATA\r\n")
	in = append(in, stream...)
	vc, _, _ := verifServe(s, in, io.EOF)
	_ = vc

	dataKind := "Data"
	if mode == 2 {
		dataKind = "LMTPData"
	}
	di := -1
	for i, e := range be.trace {
		if e.kind == dataKind {
			di = i
		}
	}
	verifAssert(di >= 0, "C02.data-called")
	baitIdx := be.find("Mail", "bait@v")
	markIdx := be.find("Mail", "marker@v")
	verifObserve("c02", mode, a, b, c, d, end, baitIdx >= 0, markIdx >= 0, len(be.trace))
	if baitOff >= end {
		verifReach("C02.early-genuine-end")
		verifAssert(baitIdx > di, "C02.line-after-genuine-end-executes")
	} else {
		verifReach("C02.bait-inside-message")
		verifAssert(baitIdx < 0, "C02.no-message-octet-executed")
	}
	verifAssert(markIdx > di, "C02.resumes-after-marker")
	if di >= 0 && markIdx > di {
		for i := di + 1; i < markIdx; i++ {
			k := be.trace[i].kind
			verifAssert(k == "Reset" || (k == "Mail" && be.trace[i].arg == "bait@v" && baitOff >= end), "C02.nothing-between-data-and-next-command")
		}
	}
	verifAssert(be.count(dataKind) == 1, "C02.one-data-call")
}

// verif_C02_timeout: the read deadline expires at an ARBITRARY offset inside a
// DATA message (the peer is slow, not gone): the read fails once, the rest of
// the message - which contains a command line - arrives afterwards. No octet of
// the message may be executed as a command, the backend never reads EOF and no
// positive reply is given for the message.
func verif_C02_timeout() { verifDataTimeout("C02") }

// verifDataTimeout: shared by C02 (nothing of the message is executed) and C04
// (the replies are those of the commands that were sent, and the connection
// is given up).
func verifDataTimeout(prop string) {
	mode := verifChoice(3) // 0 SMTP, 1 LMTP plain session, 2 LMTP per-recipient session
	hello := "EHLO c\r\n"
	if mode != 0 {
		hello = "LHLO c\r\n"
	}
	head := hello + "MAIL FROM:<s@v>\r\nRCPT TO:<r@v>\r\nDATA\r\n"
	msg := "ab\r\nMAIL FROM:<bait@v>\r\ncd\r\n.\r\n"
	tail := "MAIL FROM:<marker@v>\r\n"
	at := nondetInt(0, len(msg)-1) // the message octet in front of which the deadline expires
	readMode := verifChoice(3)     // 0 everything, 1 two octets, 2 nothing at all: refuses at once
	readAll := readMode == 0
	// the per-recipient delivery runs beside the command loop: let the
	// scheduler interleave them
	verifPreemptBound(verifBound(1, 2))
	var rerr error
	be := &vbackend{lmtpSession: mode == 2}
	consume := func(r io.Reader) error {
		switch readMode {
		case 0:
			_, rerr = verifReadAll(r, 3)
		case 1:
			_, rerr = r.Read(make([]byte, 2))
		case 2:
			return verifErrBackend()
		}
		if rerr != nil && rerr != io.EOF {
			return rerr
		}
		return nil
	}
	be.dataFn = func(_ *vsession, r io.Reader) error { return consume(r) }
	be.lmtpFn = func(_ *vsession, r io.Reader, st StatusCollector) error {
		if readMode == 2 {
			// gives the recipient its verdict right away
			st.SetStatus("r@v", verifErrBackend())
		}
		return consume(r)
	}
	s, _ := verifServer(be)
	s.LMTP = mode != 0
	s.ReadTimeout = time.Second
	vc := &vconn{in: []byte(head + msg + tail), final: io.EOF}
	vc.faults = map[int]error{len(head) + at: verifTimeoutErr{}}
	c := newConn(vc, s)
	s.handleConn(c)
	verifSettle()
	reps, wf := verifParseReplies(vc.out)
	verifObserve("c02to", mode, at, readMode)
	verifAssert(wf, prop+".timeout-replies-wellformed")
	verifAssert(be.find("Mail", "bait@v") < 0, prop+".timeout-no-message-octet-executed")
	if readAll {
		verifAssert(rerr != io.EOF, prop+".timeout-backend-never-reads-eof")
	}
	if wf && len(reps) > 5 {
		verifAssert(reps[5].code/100 != 2, prop+".timeout-no-positive-reply")
	}
	if prop == "C04" && wf {
		// greeting, hello, MAIL, RCPT, 354, the transfer's own reply and at
		// most a closing notice: nothing else was asked, so nothing else is
		// answered, and the connection is closed rather than read on
		verifAssert(len(reps) <= 7, prop+".timeout-no-reply-without-a-command")
		verifAssert(vc.closed, prop+".timeout-connection-given-up")
		verifAssert(be.find("Mail", "marker@v") < 0, prop+".timeout-nothing-executed-afterwards")
	}
	verifReach(prop + ".timeout-end")
}

// verif_C02_sentinel: the backend stops reading wherever it likes and fails
// with one of the error VALUES the library itself uses or inspects (plain or
// wrapped io.ErrUnexpectedEOF, io.EOF, ErrDataReset, ErrDataTooLarge,
// net.ErrClosed, a timeout): what the backend returns is the backend's
// business and must not change where the message ends. The message holds a
// bait command line; exactly one final reply, the bait is never executed, the
// command after the end marker is.
func verif_C02_sentinel() {
	mode := verifChoice(3) // 0 SMTP, 1 LMTP plain session, 2 LMTP per-recipient session
	msg := "ab\r\nMAIL FROM:<bait@v>\r\ncd\r\n.\r\n"
	k := nondetInt(0, 8) // octets the backend reads before it fails, one per Read
	var ret error
	switch verifChoice(8) {
	case 0:
		ret = io.ErrUnexpectedEOF
	case 1:
		ret = fmt.Errorf("decode attachment: %w", io.ErrUnexpectedEOF)
	case 2:
		ret = io.EOF
	case 3:
		ret = ErrDataReset
	case 4:
		ret = ErrDataTooLarge
	case 5:
		ret = net.ErrClosed
	case 6:
		ret = verifTimeoutErr{}
	case 7:
		ret = fmt.Errorf("wrapped: %w", ErrDataTooLarge)
	}
	consume := func(r io.Reader) error {
		buf := make([]byte, 1)
		for i := 0; i < k; i++ {
			if _, e := r.Read(buf); e != nil {
				break
			}
		}
		return ret
	}
	be := &vbackend{lmtpSession: mode == 2}
	be.dataFn = func(_ *vsession, r io.Reader) error { return consume(r) }
	be.lmtpFn = func(_ *vsession, r io.Reader, st StatusCollector) error { return consume(r) }
	s, _ := verifServer(be)
	s.LMTP = mode != 0
	hello := "EHLO c\r\n"
	if s.LMTP {
		hello = "LHLO c\r\n"
	}
	in := hello + "MAIL FROM:<s@v>\r\nRCPT TO:<r@v>\r\nDATA\r\n" + msg + "MAIL FROM:<marker@v>\r\nNOOP\r\n"
	vc, _, _ := verifServe(s, []byte(in), io.EOF)
	reps, wf := verifParseReplies(vc.out)
	verifObserve("c02s", mode, k, wf, len(reps), len(be.trace))
	verifAssert(wf, "C02.sentinel-replies-wellformed")
	verifAssert(be.find("Mail", "bait@v") < 0, "C02.sentinel-no-message-octet-executed")
	verifAssert(be.find("Mail", "marker@v") >= 0, "C02.sentinel-resumes-after-marker")
	// greeting, hello, MAIL, RCPT, 354, final, MAIL(marker), NOOP
	verifAssert(len(reps) == 8, "C02.sentinel-one-reply-per-command")
	if len(reps) == 8 {
		verifAssert(reps[4].code == 354 && reps[5].code/100 != 2 && reps[6].code == 250 && reps[7].code == 250, "C02.sentinel-replies-in-order")
	}
	verifReach("C02.sentinel-end")
}
