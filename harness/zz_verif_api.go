package smtp

// Harness API. The symbolic executor intercepts these functions by name; the
// bodies below are the *native* semantics, used when the same harness file is
// compiled by the real compiler against the real code (counterexample replay
// and translator validation): every nondet value is taken from a replay
// vector (or, in random mode, drawn from a seeded generator and recorded).

import (
	"fmt"
	"math/rand"
	"runtime"
	"strconv"
	"time"
)

type verifNativeState struct {
	vals     []uint64
	pos      int
	rnd      *rand.Rand
	drawn    []uint64
	observes []string
	reached  map[string]bool
	tier     int
}

var verifNS = &verifNativeState{reached: map[string]bool{}}

type verifAssumeFailed struct{}
type verifAssertFailed struct{ label string }

var verifInteresting = []byte{'.', '\r', '\n', ' ', 'a', 'A', '<', '>', '@', ':', '+', '=', '\\', '"', 0, 0x7f, 0x80, 0xff, '0', '9', '-', ';', ',', '{', '}', 'x', 'F', 'M', '*', '\t'}

func (s *verifNativeState) next(w uint, lo, hi int64, ranged bool) uint64 {
	var v uint64
	if s.rnd == nil {
		if s.pos < len(s.vals) {
			v = s.vals[s.pos]
		}
		s.pos++
	} else {
		switch {
		case ranged:
			v = uint64(lo + s.rnd.Int63n(hi-lo+1))
		case w == 0:
			v = uint64(s.rnd.Intn(2))
		case w == 8:
			if s.rnd.Intn(3) > 0 {
				v = uint64(verifInteresting[s.rnd.Intn(len(verifInteresting))])
			} else {
				v = uint64(s.rnd.Intn(256))
			}
		case w == 32:
			switch s.rnd.Intn(4) {
			case 0:
				v = uint64(s.rnd.Intn(128))
			case 1:
				v = uint64(s.rnd.Intn(0x800))
			case 2:
				v = uint64(s.rnd.Intn(0x110000))
			default:
				v = uint64(uint32(s.rnd.Int63()))
			}
		default:
			if s.rnd.Intn(2) == 0 {
				v = uint64(s.rnd.Intn(16))
			} else {
				v = s.rnd.Uint64()
			}
		}
	}
	if ranged {
		if int64(v) < lo || int64(v) > hi {
			panic(verifAssumeFailed{})
		}
	}
	s.drawn = append(s.drawn, v)
	return v
}

func nondetBool() bool   { return verifNS.next(0, 0, 0, false)&1 != 0 }
func nondetByte() byte   { return byte(verifNS.next(8, 0, 0, false)) }
func nondetRune() rune   { return rune(int32(uint32(verifNS.next(32, 0, 0, false)))) }
func nondetInt64() int64 { return int64(verifNS.next(64, 0, 0, false)) }

// nondetInt returns an arbitrary int in [lo, hi].
func nondetInt(lo, hi int) int { return int(int64(verifNS.next(64, int64(lo), int64(hi), true))) }

// nondetBytes returns a slice of arbitrary length 0..maxLen and arbitrary content.
func nondetBytes(maxLen int) []byte {
	n := nondetInt(0, maxLen)
	b := make([]byte, n)
	for i := range b {
		b[i] = nondetByte()
	}
	return b
}
func nondetString(maxLen int) string { return string(nondetBytes(maxLen)) }

// nondetBytesN: exactly n arbitrary octets.
func nondetBytesN(n int) []byte {
	b := make([]byte, n)
	for i := range b {
		b[i] = nondetByte()
	}
	return b
}
func nondetStringN(n int) string { return string(nondetBytesN(n)) }

// assume prunes the path when cond is false.
func assume(cond bool) {
	if !cond {
		panic(verifAssumeFailed{})
	}
}

// verifAssert: the property. The executor asks the solver whether cond can be
// false under the path condition.
func verifAssert(cond bool, label string) {
	if !cond {
		panic(verifAssertFailed{label})
	}
}

// verifReach marks a point that must be reachable on some path (vacuity guard).
func verifReach(label string) { verifNS.reached[label] = true }

// verifNoReach declares that a label of a shared harness body is not
// reachable in this variant (it is then not demanded by the vacuity guard).
func verifNoReach(label string) {}

// verifObserve logs values for translator validation.
func verifObserve(label string, v ...interface{}) {
	s := label
	for _, x := range v {
		s += " " + verifObsString(x)
	}
	verifNS.observes = append(verifNS.observes, s)
}

func verifObsString(x interface{}) string {
	switch x := x.(type) {
	case nil:
		return "<nil>"
	case string:
		return strconv.Quote(x)
	case []byte:
		return strconv.Quote(string(x))
	case bool:
		return fmt.Sprint(x)
	case int:
		return fmt.Sprint(int64(x))
	case int64:
		return fmt.Sprint(x)
	case int32:
		return fmt.Sprint(int64(x))
	case byte:
		return fmt.Sprint(int64(x))
	case uint64:
		return fmt.Sprint(int64(x))
	case uint32:
		return fmt.Sprint(int64(x))
	case uint:
		return fmt.Sprint(int64(x))
	case error:
		return strconv.Quote(x.Error())
	}
	return fmt.Sprintf("%v", x)
}

// verifKnown tags the current path: inputs satisfying cond are the listed
// known finding id (see /verif/known_findings.json).
func verifKnown(id string, cond bool) {}

// verifBound returns the quick or the thorough value of a bound.
func verifBound(quick, thorough int) int {
	if verifNS.tier >= 1 {
		return thorough
	}
	return quick
}

// verifChoice forks over n alternatives without involving the solver.
func verifChoice(n int) int {
	v := int(verifNS.next(64, 0, int64(n-1), true))
	return v
}

// Scheduler / monitor controls: no-ops natively.
func verifYield()                        {}
func verifQuiesce()                      {}
func verifGoroutinesAlive() int          { return 0 }
func verifPanicEvents() int              { return 0 }
func verifSymbolic() bool                { return false }
func verifRaces() int                    { return 0 }
func verifHB(on bool)                    {}
func verifMapOrder(rev bool)             {}
func verifPreemptBound(n int)            {}
func verifIsConcrete(x interface{}) bool { return true }

// verifSleeps returns the durations passed to time.Sleep so far (engine only).
func verifSleeps() []int64 { return nil }

// verifSettle lets every other goroutine run until it finishes or blocks
// (engine: scheduler quiescence; native: a short sleep).
func verifSettle() {
	for i := 0; i < 20; i++ {
		runtime.Gosched()
		time.Sleep(time.Millisecond)
	}
}

// verifSchedForkBound: number of "which goroutine next" decisions per path for
// which every order is explored (engine only).
func verifSchedForkBound(n int) {}
