package smtp

import (
	"crypto/tls"
	"io"
	"net"
	"strings"

	"github.com/emersion/go-sasl"
)

var verifDialConn net.Conn

// verif_C10_server_stub: STARTTLS from four plaintext states with a plaintext
// command pipelined behind it (two octets arbitrary), handshake success or
// failure; then an inside-TLS conversation. Relative to the TLS stub contract
// (reads on the TLS connection never return plaintext octets).
func verif_C10_server_stub() {
	verifPreemptBound(0)
	pre := verifChoice(4)
	m := &vsasl{failAt: -1}
	be := &vbackend{authSession: true, mechs: []string{"XVERIF"}}
	be.saslFn = func(_ *vsession, mech string) (sasl.Server, error) { return m, nil }
	if nondetBool() {
		// the backend's Logout reports a failure: the session is over all the same
		be.logoutErr = verifErrBackend()
	}
	s, lg := verifServer(be)
	s.AllowInsecureAuth = true
	s.TLSConfig = &tls.Config{}
	plain := "EHLO plain.example\r\n"
	npre := 2
	switch pre {
	case 1:
		plain += "AUTH XVERIF =\r\n"
		npre = 3
	case 2:
		plain += "MAIL FROM:<early@v>\r\nRCPT TO:<r@v>\r\n"
		npre = 4
	case 3:
		plain += "MAIL FROM:<early@v>\r\nRCPT TO:<r@v>\r\nBDAT 2\r\nxy"
		npre = 5
	}
	inj := []byte("MAIL FROM:<plain@v>\r\n")
	inj[0], inj[len(inj)-3] = nondetByte(), nondetByte()
	assume(inj[0] < 0x80)
	in := append([]byte(plain+"STARTTLS\r\n"), inj...)
	in = append(in, "RCPT TO:<plainrcpt@v>\r\n"...)
	switch verifChoice(3) {
	case 1:
		// an unterminated plaintext line almost as long as a line may be
		s.MaxLineLength = 40
		in = append([]byte(plain+"STARTTLS\r\n"), "xxxxxxxxxxxxxxxxxxxxxxxxxxxxxxxxxxx"...)
	case 2:
		// a plaintext line over the limit (the limiter holds it back so that
		// STARTTLS is answered first)
		s.MaxLineLength = 40
		in = append([]byte(plain+"STARTTLS\r\n"), "xxxxxxxxxxxxxxxxxxxxxxxxxxxxxxxxxxxxxxxxxxxxxxxxxxxxxxxxxxxx\r\nNOOP\r\n"...)
	}
	vc := &vconn{in: in, final: io.EOF, tlsFinal: io.EOF}
	vc.tlsFail = nondetBool()
	vc.tlsIn = []byte("RCPT TO:<stale@v>\r\nEHLO inside.example\r\nAUTH XVERIF =\r\nMAIL FROM:<inside@v>\r\nSTARTTLS\r\n")
	conn := newConn(vc, s)
	s.handleConn(conn)
	verifSettle()
	if vc.tlsFail {
		// a failed handshake leaves a plaintext session; the statement is
		// about successful upgrades only
		verifReach("C10.handshake-failed")
		return
	}
	preps, pwf := verifParseReplies(vc.out)
	verifAssert(pwf && len(preps) >= npre+1 && (lg.lines == 0 || be.logoutErr != nil), "C10.plain-replies")
	if !pwf || len(preps) < npre+1 {
		return
	}
	// EHLO in plaintext advertises STARTTLS
	adv := false
	for _, l := range preps[1].lines {
		if l == "STARTTLS" {
			adv = true
		}
	}
	verifAssert(adv, "C10.starttls-advertised-in-plaintext")
	verifAssert(preps[npre].code == 220, "C10.starttls-accepted-when-offered")
	verifObserve("c10s", pre, vc.tlsFail, len(preps), len(be.trace))
	verifReach("C10.upgraded")
	verifAssert(len(preps) == npre+1, "C10.nothing-plaintext-after-220")
	authOnOld, authOnNew := 0, 0
	ireps, iwf := verifParseReplies(vc.tlsOut)
	verifAssert(iwf && len(ireps) == 5, "C10.inside-replies")
	if !iwf || len(ireps) != 5 {
		return
	}
	// authentication and a transaction inside TLS belong to the NEW session
	verifAssert(ireps[2].code == 235 && ireps[3].code == 250, "C10.inside-auth-and-mail-accepted")
	for _, e := range be.trace {
		if e.kind == "Auth" && e.sess == 1 {
			authOnOld++
		}
		if e.kind == "Auth" && e.sess == 2 {
			authOnNew++
		}
	}
	// the stale RCPT is refused: the envelope learned in plaintext is gone
	verifAssert(ireps[0].code/100 == 5 && be.find("Rcpt", "stale@v") < 0, "C10.envelope-forgotten")
	// EHLO inside: no STARTTLS any more, new session that sees TLS
	for _, l := range ireps[1].lines {
		verifAssert(l != "STARTTLS", "C10.starttls-not-offered-under-tls")
	}
	verifAssert(ireps[4].code/100 == 5, "C10.starttls-refused-under-tls")
	preAuth := 0
	if pre == 1 {
		preAuth = 1
	}
	verifAssert(authOnOld == preAuth && authOnNew == 1, "C10.inside-auth-reaches-the-new-session")
	verifAssert(be.sessions == 2, "C10.session-replaced")
	verifAssert(len(be.tlsSeen) == 2 && !be.tlsSeen[0] && be.tlsSeen[1], "C10.new-session-sees-tls")
	verifAssert(len(be.helloSeen) == 2 && be.helloSeen[1] == "inside.example", "C10.new-session-sees-new-greeting")
	// the first session was logged out exactly once, before the second was created
	verifCheckSessions(be, "c10")
	lo, ns2 := -1, -1
	for i, e := range be.trace {
		if e.kind == "Logout" && e.sess == 1 && lo < 0 {
			lo = i
		}
		if e.kind == "NewSession" && e.sess == 2 {
			ns2 = i
		}
	}
	verifAssert(lo >= 0 && ns2 > lo, "C10.old-session-logged-out-before-new")
	// nothing pipelined in plaintext was ever interpreted
	verifAssert(be.find("Mail", "plain@v") < 0 && be.find("Rcpt", "plainrcpt@v") < 0, "C10.plaintext-suffix-never-interpreted")
	for _, e := range be.trace[ns2:] {
		if e.kind == "Mail" {
			verifAssert(e.arg == "inside@v", "C10.only-inside-commands-after-upgrade")
		}
	}
	verifAssert(conn.didAuth, "C10.authenticated-by-the-exchange-inside-tls-only")
	verifAssert(verifGoroutinesAlive() == 0, "C10.no-goroutine-left")
}

func verifPlainLinesOnly(out []byte, prop string) {
	for _, l := range verifSplitLines(out) {
		u := strings.ToUpper(l)
		ok := strings.HasPrefix(u, "EHLO ") || strings.HasPrefix(u, "HELO ") || u == "STARTTLS" || u == "QUIT"
		verifAssert(ok, prop)
	}
}

// verif_C10_client_stub: NewClientStartTLS / package-level SendMail against a
// misbehaving plaintext peer. In every case nothing but EHLO/HELO/STARTTLS/
// QUIT may be written in plaintext, and after a successful upgrade the
// capabilities are those announced inside TLS.
func verif_C10_client_stub() {
	mis := verifChoice(6)
	plainEhlo := "250-p.example\r\n250-STARTTLS\r\n250-AUTH PLAIN\r\n250 SIZE 100\r\n"
	script := "220 p.example ESMTP\r\n"
	vc := &vconn{final: io.EOF, tlsFinal: io.EOF}
	switch mis {
	case 0: // well-behaved
		script += plainEhlo + "220 2.0.0 go\r\n"
	case 1: // no STARTTLS capability
		script += "250-p.example\r\n250 AUTH PLAIN\r\n"
	case 2: // 454
		script += plainEhlo + "454 4.7.0 not now\r\n"
	case 3: // 220 then garbage in plaintext
		script += plainEhlo + "220 2.0.0 go\r\n" + "\x00\xffgarbage\r\n250 ok\r\n"
	case 4: // 220 with injected replies in the same segment
		script += plainEhlo + "220 2.0.0 go\r\n" + "250-evil.example\r\n250-AUTH LOGIN\r\n250 XINJECTED\r\n250 2.0.0 ok\r\n250 2.0.0 ok\r\n354 go\r\n250 2.0.0 ok\r\n"
	case 5: // handshake failure
		script += plainEhlo + "220 2.0.0 go\r\n"
		vc.tlsFail = true
	}
	vc.in = []byte(script)
	// inside TLS the server announces one extension, or none at all
	insideKind := verifChoice(4) // 0 one extension, 1 none (a bare 250), 2 EHLO refused with 503, 3 refused with 550
	bare := insideKind == 1
	insideEhlo := "250-inside.example\r\n250 SMTPUTF8\r\n"
	switch insideKind {
	case 1:
		insideEhlo = "250 inside.example\r\n"
	case 2:
		insideEhlo = "503 5.5.1 duplicate EHLO\r\n"
	case 3:
		insideEhlo = "550 5.7.1 go away\r\n"
	}
	vc.tlsIn = []byte(insideEhlo + "250 2.0.0 ok\r\n250 2.0.0 ok\r\n354 go\r\n250 2.0.0 ok\r\n221 2.0.0 bye\r\n")
	usePkg := nondetBool()
	var err error
	var c *Client
	if usePkg {
		verifDialConn = vc
		err = SendMail("p.example:25", nil, "s@v", []string{"r@v"}, strings.NewReader("secret body\r\n"))
	} else {
		c, err = NewClientStartTLS(vc, nil)
		if err == nil {
			err = c.SendMail("s@v", []string{"r@v"}, strings.NewReader("secret body\r\n"))
		}
	}
	verifObserve("c10c", mis, usePkg, err == nil, len(vc.out), len(vc.tlsOut))
	verifPlainLinesOnly(vc.out, "C10.client-plaintext-only-greeting-and-starttls")
	upgraded := mis == 0 || mis == 3 || mis == 4
	if upgraded && insideKind >= 2 {
		// the greeting inside TLS is refused: nothing may be sent on the
		// strength of what was learned in plaintext
		verifReach("C10.client-inside-ehlo-refused")
		verifAssert(err != nil, "C10.client-fails-when-inside-ehlo-is-refused")
		for _, l := range verifSplitLines(vc.tlsOut) {
			u := strings.ToUpper(l)
			verifAssert(strings.HasPrefix(u, "EHLO ") || strings.HasPrefix(u, "HELO ") || u == "QUIT", "C10.client-sends-nothing-on-plaintext-capabilities")
		}
	} else if upgraded {
		verifReach("C10.client-upgraded")
		verifAssert(err == nil, "C10.client-sends-after-upgrade")
		il := verifSplitLines(vc.tlsOut)
		verifAssert(len(il) >= 2 && strings.HasPrefix(il[0], "EHLO ") && strings.HasPrefix(il[1], "MAIL FROM:<s@v>"), "C10.client-renegotiates-ehlo-inside-tls")
		if c != nil {
			_, hasUTF8 := c.ext["SMTPUTF8"]
			_, hasInj := c.ext["XINJECTED"]
			_, hasAuth := c.ext["AUTH"]
			_, hasStart := c.ext["STARTTLS"]
			if bare {
				verifAssert(len(c.ext) == 0, "C10.client-capabilities-are-the-inside-ones")
				ok1, _ := c.Extension("AUTH")
				ok2, _ := c.Extension("STARTTLS")
				verifAssert(!ok1 && !ok2 && !c.SupportsAuth("PLAIN"), "C10.client-forgets-plaintext-capabilities")
			} else {
				verifAssert(hasUTF8 && !hasInj && !hasAuth && !hasStart && len(c.ext) == 1, "C10.client-capabilities-are-the-inside-ones")
			}
		}
	} else {
		verifReach("C10.client-not-upgraded")
		verifAssert(err != nil, "C10.client-refuses-without-tls")
		verifAssert(len(vc.tlsOut) == 0, "C10.client-nothing-inside")
	}
}

// verif_C10_unavailable: STARTTLS where it must not be available - no
// TLSConfig - in every plaintext pre-state: refused with 5xx, nothing about
// the session changes (same session, envelope kept, authentication kept), and
// the plaintext conversation simply continues. Runs without the TLS stub, so
// it is also compiled natively (translator validation for C10).
func verif_C10_unavailable() {
	pre := verifChoice(3)
	m := &vsasl{failAt: -1}
	be := &vbackend{authSession: true, mechs: []string{"XVERIF"}}
	be.saslFn = func(_ *vsession, mech string) (sasl.Server, error) { return m, nil }
	s, lg := verifServer(be)
	s.AllowInsecureAuth = true
	in := "EHLO p.example\r\n"
	n := 2
	switch pre {
	case 1:
		in += "AUTH XVERIF =\r\n"
		n = 3
	case 2:
		in += "MAIL FROM:<early@v>\r\n"
		n = 3
	}
	junk := nondetBytesN(2)
	for _, ch := range junk {
		assume(ch != '\n' && ch != '\r' && ch < 0x80 && ch > ' ')
	}
	in += "STARTTLS " + string(junk) + "\r\nRCPT TO:<r@v>\r\nNOOP\r\n"
	vc, conn, _ := verifServe(s, []byte(in), io.EOF)
	reps, wf := verifParseReplies(vc.out)
	verifObserve("c10u", pre, junk, wf, len(reps), lg.lines)
	verifAssert(wf && len(reps) == n+3 && lg.lines == 0, "C10.unavailable-replies")
	if !wf || len(reps) != n+3 {
		return
	}
	for _, l := range reps[1].lines {
		verifAssert(l != "STARTTLS", "C10.starttls-not-offered-without-tlsconfig")
	}
	verifAssert(reps[n].code/100 == 5, "C10.starttls-refused-without-tlsconfig")
	verifAssert(be.sessions == 1 && be.count("Logout") == 1, "C10.unavailable-session-untouched")
	if pre == 2 {
		verifAssert(reps[n+1].code == 250 && be.find("Rcpt", "r@v") >= 0, "C10.unavailable-envelope-kept")
	} else {
		verifAssert(reps[n+1].code/100 == 5, "C10.unavailable-no-envelope")
	}
	_ = conn
	verifReach("C10.unavailable-end")
}
