#!/usr/bin/env python3
"""Regenerates DESIGN.md section 5.0 (harnesses and bounds as built) from meta.json."""
import json, re
m=json.load(open('/verif/meta.json'))
out=["<!-- ASBUILT-BEGIN -->","### 5.0 Harnesses, bounds and stubs as built (generated from /verif/meta.json, which is also copied into every evidence file)","",
"The sub-sections 5.C01 ... 5.C20 below are the plan as written before the code; where a planned harness is missing here it was not built (notably the arbitrary-pre-state STEP harnesses other than `verif_C03_step` and `verif_C06_budget`), and where a harness here is not in the plan it was added because a seeded change showed a gap (section 10.4).",""]
for pid in sorted(m):
    e=m[pid]
    out.append("**%s**" % pid)
    for b in e.get('bounds',[]): out.append("* bound: "+b)
    for b in e.get('outside',[]): out.append("* outside: "+b)
    for b in e.get('stubs',[]): out.append("* stub: "+b)
    for b in e.get('assumptions',[]): out.append("* assumes: "+b)
    out.append("")
out.append("<!-- ASBUILT-END -->")
txt="\n".join(out)
p='/verif/DESIGN.md'
s=open(p).read()
if 'ASBUILT-BEGIN' in s:
    s=re.sub(r'<!-- ASBUILT-BEGIN -->.*?<!-- ASBUILT-END -->', lambda _: txt, s, flags=re.S)
else:
    marker='### C01 — DATA body byte-exact after dot-unstuffing'
    s=s.replace(marker, txt+"\n\n"+marker,1)
open(p,'w').write(s)
print("ok")
