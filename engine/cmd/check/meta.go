package main

import (
	"encoding/json"
	"os"
	"path/filepath"
)

// Per-property statements of bounds, what lies outside them, stubs and
// assumptions (/verif/meta.json); copied into the evidence file next to the
// measured counts.
type propMeta struct {
	Bounds      []string `json:"bounds"`
	Outside     []string `json:"outside"`
	Stubs       []string `json:"stubs"`
	Assumptions []string `json:"assumptions"`
}

var harnessMeta = map[string]propMeta{}

func loadMeta(verif string) {
	b, err := os.ReadFile(filepath.Join(verif, "meta.json"))
	if err != nil {
		return
	}
	json.Unmarshal(b, &harnessMeta)
}
