#!/bin/bash
# usage: try1.sh <patch> <ID> [harness]
R=/tmp/seedrepo1.$$; rm -rf $R; git clone -q /repo $R || exit 2
(cd $R && git apply --3way "$1" 2>&1 | grep -v "^Applied patch\|^Falling back\|^Performing" ) 
H=""; [ -n "$3" ] && H="--harness $3"
(cd /verif && VERIF_REPO=$R VERIF_BUDGET_S=280 timeout 900 ./bin/check $2 --tier ${TIER:-quick} ${WORKERS:+--workers $WORKERS} $H 2>&1 | grep -E "^(VIOLATION|OK|INCONCLUSIVE|violation)" | cut -c1-260 | head -5)
rm -rf $R
