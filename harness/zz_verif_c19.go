package smtp

import (
	"crypto/tls"
	"github.com/emersion/go-sasl"
	"io"
	"strconv"
)

// verif_C19_line: one command line of up to L arbitrary 7-bit octets (NUL, CR,
// controls, printable; LF only as terminator) from an un-greeted, a greeted or
// a mid-transaction state. Shared by C04 (exactly one well-formed reply) and
// C19 (no crash, no recovered panic, connection survives one bad line).
func verifLineHarness(prop string) {
	L := verifBound(4, 5)
	line := nondetBytes(L)
	for _, ch := range line {
		assume(ch != '\n' && ch < 0x80)
	}
	state := verifChoice(3)
	be := &vbackend{}
	s, lg := verifServer(be)
	pre := ""
	switch state {
	case 1:
		pre = "EHLO c\r\n"
	case 2:
		pre = "EHLO c\r\nMAIL FROM:<a@v>\r\nRCPT TO:<b@v>\r\n"
	}
	in := append([]byte(pre), line...)
	in = append(in, "\r\nNOOP\r\n"...)
	vc, _, err := verifServe(s, in, io.EOF)
	npre := map[int]int{0: 1, 1: 2, 2: 4}[state]
	reps, wf := verifParseReplies(vc.out)
	verifObserve(prop+".line", line, state, wf, len(reps), len(be.trace), lg.lines)
	verifAssert(err == nil, prop+".loop-ends-cleanly")
	verifAssert(lg.lines == 0, prop+".nothing-logged")
	verifAssert(verifPanicEvents() == 0, prop+".no-recovered-panic")
	// a line that is a genuine DATA command consumes the following NOOP as message text
	verifAssert(wf, prop+".replies-wellformed")
	if !wf {
		return
	}
	isData := false
	for _, r := range reps {
		if r.code == 354 {
			isData = true
		}
	}
	isQuit := len(reps) > npre && reps[npre].code == 221
	switch {
	case isData:
		verifReach(prop + ".line-is-data")
		verifAssert(state == 2, prop+".data-only-in-transaction")
	case isQuit:
		verifReach(prop + ".line-is-quit")
		verifAssert(len(reps) == npre+1, prop+".nothing-after-quit")
	default:
		verifReach(prop + ".line-answered")
		// exactly one reply for the line and one for the NOOP that follows
		verifAssert(len(reps) == npre+2, prop+".one-reply-per-line")
		if len(reps) == npre+2 {
			verifAssert(reps[npre+1].code == 250, prop+".connection-usable-after-line")
			r := reps[npre]
			if r.code/100 != 3 && !(r.code == 250 && len(r.lines) > 1) {
				verifAssert(r.hasEn && r.enh[0] == r.code/100, prop+".enhanced-code-class-matches")
			}
		}
	}
}

func verif_C19_line() { verifLineHarness("C19") }

// verif_C19_limit: lines around the configured maximum at the first, second
// and third position of the conversation, between two chunks of a BDAT transfer
// and right after its LAST chunk, with the segmentation varied.
// A line (CRLF included) of length <= max is never refused for its length;
// a line of length >= max+2 is answered 500 and the connection closed without
// the line reaching a handler or the backend.
func verif_C19_limit() {
	max := 24
	pos := verifChoice(6)
	ll := nondetInt(max-3, max+4) // total line length including CRLF
	seg := verifChoice(3)         // 0: one segment, 1: 1 octet per read, 2: 5 octets per read
	be := &vbackend{}
	s, lg := verifServer(be)
	s.MaxLineLength = max
	in := []byte{}
	nmail := 0
	var chunkCuts []int
	switch pos {
	case 3: // between two chunks of a transfer
		in = append(in, "EHLO c\r\nMAIL FROM:<a@v>\r\nRCPT TO:<b@v>\r\nBDAT 2\r\nab"...)
		pos, nmail = 4, 1
	case 4: // right after the LAST chunk
		in = append(in, "EHLO c\r\nMAIL FROM:<a@v>\r\nRCPT TO:<b@v>\r\nBDAT 2 LAST\r\nab"...)
		pos, nmail = 4, 1
	case 5: // the chunk in a later read than its BDAT line, its end in one read with the next command
		in = append(in, "EHLO c\r\nMAIL FROM:<a@v>\r\nRCPT TO:<b@v>\r\nBDAT 6 LAST\r\n"...)
		chunkCuts = append(chunkCuts, len(in))
		in = append(in, "abcdefNOOP\r\n"...)
		chunkCuts = append(chunkCuts, len(in))
		pos, nmail = 5, 1
	default:
		for i := 0; i < pos; i++ {
			in = append(in, "NOOP\r\n"...)
		}
	}
	// the probed line: "NOOP" padded with spaces
	probe := []byte("NOOP")
	for len(probe) < ll-2 {
		probe = append(probe, ' ')
	}
	probe = append(probe, '\r', '\n')
	assume(len(probe) == ll)
	in = append(in, probe...)
	in = append(in, "MAIL FROM:<a@v>\r\n"...)
	vc := &vconn{in: in, final: io.EOF, cuts: chunkCuts}
	switch seg {
	case 1:
		vc.seg = 1
	case 2:
		vc.seg = 5
	}
	c := newConn(vc, s)
	err := s.handleConn(c)
	verifSettle()
	reps, wf := verifParseReplies(vc.out)
	verifAssert(wf && err == nil && lg.lines == 0, "C19.limit-clean")
	if !wf {
		return
	}
	verifObserve("c19limit", pos, ll, seg, len(reps))
	isTooLong := func(r vreply) bool {
		return r.code == 500 && len(r.lines) == 1 && r.lines[0] == "5.4.0 Too long line, closing connection"
	}
	if ll >= max+2 {
		// (the commands in front of the over-long line are answered whatever
		// the segmentation: greeting + pos replies + the closing 500)
		verifReach("C19.over-limit")
		verifAssert(len(reps) == pos+2 && isTooLong(reps[len(reps)-1]), "C19.over-long-line-refused")
		verifAssert(vc.closed, "C19.over-long-line-closes")
		verifAssert(be.count("Mail") == nmail, "C19.nothing-after-too-long-line")
		for _, r := range reps[1 : len(reps)-1] {
			verifAssert(r.code == 250, "C19.no-part-of-over-long-line-executed")
		}
		return
	}
	if ll == max+1 {
		// one octet over: tolerated or refused, the statement leaves it open
		verifReach("C19.one-over")
		return
	}
	verifAssert(len(reps) >= pos+2, "C19.limit-replies")
	if len(reps) < pos+2 {
		return
	}
	r := reps[pos+1]
	tooLong := isTooLong(r)
	if ll <= max {
		verifReach("C19.within-limit")
		verifAssert(!tooLong && r.code == 250, "C19.line-within-max-never-refused")
	}
	if tooLong {
		verifAssert(be.count("Mail") == nmail, "C19.nothing-after-too-long-line")
	}
}

// verif_C19_line8: command lines containing 8-bit octets: one arbitrary
// non-ASCII Unicode scalar (case mapping executed exactly from
// unicode.CaseRanges) or one arbitrary lone octet >= 0x80 (invalid UTF-8), at
// the start or inside a command word.
func verifLine8Harness(prop string) {
	var mid string
	if nondetBool() {
		r := nondetRune()
		assume(verifValidScalar(r) && r >= 0x80)
		mid = string(r)
	} else {
		b := nondetByte()
		assume(b >= 0x80)
		mid = string([]byte{b})
	}
	line := []string{mid + "OOP", "NO" + mid + "P", "MAIL FROM:<a" + mid + "@v>", "EHLO " + mid}[verifChoice(4)]
	be := &vbackend{}
	s, lg := verifServer(be)
	in := "EHLO c\r\n" + line + "\r\nNOOP\r\n"
	vc, _, err := verifServe(s, []byte(in), io.EOF)
	reps, wf := verifParseReplies(vc.out)
	verifObserve(prop+".l8", line, wf, len(reps), lg.lines)
	verifAssert(err == nil && lg.lines == 0 && verifPanicEvents() == 0, prop+".8bit-no-crash")
	verifAssert(wf && len(reps) == 4 && reps[3].code == 250, prop+".8bit-one-reply-per-line")
	verifReach(prop + ".8bit-end")
}

func verif_C19_line8() { verifLine8Harness("C19") }

// verifLineMixedHarness: a command line of 1..L octets in which ONE position
// holds an arbitrary octet >= 0x80 (so, next to 7-bit neighbours, always
// invalid UTF-8) and the others arbitrary 7-bit octets. Invalid UTF-8 changes
// length under case mapping (one octet becomes U+FFFD, three octets), which
// is where offset arithmetic on mapped strings goes wrong.
func verifLineMixedHarness(prop string) {
	L := nondetInt(1, verifBound(4, 5))
	line := nondetBytesN(L)
	p := nondetInt(0, L-1)
	for i, ch := range line {
		if i == p {
			assume(ch >= 0x80)
		} else {
			assume(ch != '\n' && ch < 0x80)
		}
	}
	be := &vbackend{}
	s, lg := verifServer(be)
	in := append([]byte("EHLO c\r\n"), line...)
	in = append(in, "\r\nNOOP\r\n"...)
	vc, _, err := verifServe(s, in, io.EOF)
	verifObserve(prop+".mixed", line, len(vc.out), lg.lines)
	verifAssert(err == nil && lg.lines == 0 && verifPanicEvents() == 0, prop+".mixed-no-crash")
	reps, wf := verifParseReplies(vc.out)
	verifAssert(wf && len(reps) == 4 && reps[3].code == 250, prop+".mixed-one-reply-then-noop")
}

func verif_C19_line_mixed() { verifLineMixedHarness("C19") }

// verif_C19_limiter_step: the lineLimitReader from an ARBITRARY state (limit L
// and count c arbitrary ints with 0 <= c <= L, L >= 1) over up to 3 arbitrary
// octets followed by EOF, read to its end, compared with a closed form written
// from the statement: the count at octet i is i-j+1 if the last LF at or before
// i is at j, and c+i+1 if there is none; the first octet whose count exceeds L
// makes its line too long. Exactly the complete lines before that line are
// handed out (pipelined commands in front of an over-long line are still
// commands), then ErrTooLongLine, and the reader stays refused. Without such an
// octet everything is handed out unchanged and the count is the closed form's.
// Inductive step for "the limiter's count is the number of octets since the
// last LF (the LF included)", for every limit.
func verif_C19_limiter_step() {
	k := nondetInt(0, 3)
	oct := nondetBytesN(k)
	L := nondetInt(1, 1<<31)
	c := nondetInt(0, 1<<31)
	assume(c <= L)
	src := &verifSrc{data: oct, final: io.EOF, finalWithData: nondetBool()}
	r := &lineLimitReader{R: src, LineLimit: L, curLineLength: c}
	var got []byte
	var err error
	for i := 0; i < k+3 && err == nil; i++ {
		b := make([]byte, 4)
		var n int
		n, err = r.Read(b)
		got = append(got, b[:n]...)
	}
	// closed form
	trip := false
	lastLF := -1
	keep := k // octets handed out
	final := c
	for i := 0; i < k && !trip; i++ {
		if oct[i] == '\n' {
			lastLF = i
		}
		cnt := c + i + 1
		if lastLF >= 0 {
			cnt = i - lastLF + 1
		}
		if cnt > L {
			trip = true
			keep = lastLF + 1
		}
		final = cnt
	}
	verifObserve("c19ls", k, oct, L, c, len(got), err == io.EOF, r.curLineLength)
	verifAssert(len(got) == keep, "C19.lstep-hands-out-exactly-the-lines-before-the-long-one")
	if len(got) == keep {
		for i := 0; i < keep; i++ {
			verifAssert(got[i] == oct[i], "C19.lstep-octets-unchanged")
		}
	}
	if trip {
		verifReach("C19.lstep-trip")
		verifAssert(err == ErrTooLongLine, "C19.lstep-refused-iff-count-exceeds")
		verifAssert(r.exceeded(), "C19.lstep-stays-refused")
		n, e2 := r.Read(make([]byte, 4))
		verifAssert(n == 0 && e2 == ErrTooLongLine, "C19.lstep-stays-refused")
	} else {
		verifReach("C19.lstep-pass")
		verifAssert(err == io.EOF, "C19.lstep-passes-iff-count-within")
		verifAssert(r.curLineLength == final && r.curLineLength <= L && !r.exceeded(), "C19.lstep-count-is-octets-since-last-lf")
	}
}

// verif_C19_threshold: mixes of valid commands, unrecognised commands and
// malformed lines (too short, five octets, no space after the verb) around the
// error threshold, all pipelined in one segment. The connection is closed
// exactly when the fourth error arrives (the closing notice follows that
// error's reply), nothing after it is executed or answered, nothing panics.
func verif_C19_threshold() {
	items := []string{"NOOP\r\n", "FROB\r\n", "ab\r\n", "abcde\r\n", "MAILFROM:<a@v>\r\n", "\r\n", "MAIL FROM:<a@v>\r\n"}
	isErr := []bool{false, true, true, true, true, true, false}
	n := verifBound(5, 6)
	in := []byte("EHLO c\r\n")
	errs := 0
	answered := 1 // EHLO
	closedAt := -1
	for i := 0; i < n; i++ {
		k := verifChoice(len(items))
		in = append(in, items[k]...)
		if closedAt >= 0 {
			continue
		}
		answered++
		if isErr[k] {
			errs++
			if errs > 3 {
				closedAt = i
			}
		}
	}
	be := &vbackend{}
	s, lg := verifServer(be)
	vc, _, err := verifServe(s, in, io.EOF)
	reps, wf := verifParseReplies(vc.out)
	verifObserve("c19th", n, errs, closedAt, wf, len(reps), lg.lines)
	verifAssert(err == nil && lg.lines == 0 && verifPanicEvents() == 0, "C19.threshold-no-crash")
	verifAssert(wf, "C19.threshold-wellformed")
	if !wf {
		return
	}
	if closedAt >= 0 {
		verifReach("C19.threshold-closed")
		// greeting + answered + the closing notice
		verifAssert(len(reps) == 1+answered+1, "C19.threshold-nothing-after-the-fourth-error")
		last := reps[len(reps)-1]
		verifAssert(last.code == 500 && last.lines[0] == "5.5.1 Too many errors. Quiting now" && vc.closed, "C19.threshold-closing-notice")
	} else {
		verifReach("C19.threshold-open")
		verifAssert(len(reps) == 1+answered, "C19.threshold-one-reply-per-line")
	}
}

// verif_C19_limit_auth: the line-length limit right behind a SASL exchange.
// AUTH without initial response, the 334 challenge, the client's response (a
// valid one, a cancelling "*", or bad base64) and then a NOOP line of arbitrary
// length around the maximum followed by MAIL, in four segmentations (all in
// one read, response and rest in separate reads, rest cut before the probed
// line, octet by octet). A line of max+2 or more is refused and the connection
// closed without MAIL reaching the backend; a line within the maximum is not
// refused for its length.
func verif_C19_limit_auth() {
	max := 24
	ll := nondetInt(max-2, max+4) // total length of the probed line including CRLF
	m := &vsasl{failAt: -1, steps: 1, challenge: [][]byte{[]byte("c")}}
	m.fail = nondetBool()
	be := &vbackend{authSession: true, mechs: []string{"XVERIF"}}
	be.saslFn = func(_ *vsession, mech string) (sasl.Server, error) { return m, nil }
	s, lg := verifServer(be)
	s.AllowInsecureAuth = true
	s.MaxLineLength = max
	head := "EHLO c\r\nAUTH XVERIF\r\n"
	resp := []string{"AA==\r\n", "*\r\n", "!\r\n"}[verifChoice(3)]
	probe := []byte("NOOP")
	for len(probe) < ll-2 {
		probe = append(probe, ' ')
	}
	probe = append(probe, '\r', '\n')
	assume(len(probe) == ll)
	in := []byte(head + resp)
	pstart := len(in)
	in = append(in, probe...)
	in = append(in, "MAIL FROM:<a@v>\r\n"...)
	vc := &vconn{in: in, final: io.EOF}
	switch verifChoice(4) {
	case 1:
		vc.cuts = []int{len(head)}
	case 2:
		vc.cuts = []int{len(head), pstart}
	case 3:
		vc.seg = 1
	}
	c := newConn(vc, s)
	err := s.handleConn(c)
	verifSettle()
	reps, wf := verifParseReplies(vc.out)
	verifObserve("c19la", ll, m.fail, wf, len(reps), lg.lines)
	verifAssert(wf && err == nil && lg.lines == 0 && verifPanicEvents() == 0, "C19.auth-limit-clean")
	if !wf {
		return
	}
	// greeting, EHLO, 334, verdict of the exchange, then the probed line
	verifAssert(len(reps) >= 5 && reps[2].code == 334, "C19.auth-limit-replies")
	if len(reps) < 5 {
		return
	}
	r := reps[4]
	tooLong := r.code == 500 && len(r.lines) == 1 && r.lines[0] == "5.4.0 Too long line, closing connection"
	if ll >= max+2 {
		verifReach("C19.auth-over-limit")
		verifAssert(tooLong && len(reps) == 5 && vc.closed, "C19.auth-over-long-line-refused")
		verifAssert(be.count("Mail") == 0, "C19.auth-nothing-after-too-long-line")
	} else if ll <= max {
		verifReach("C19.auth-within-limit")
		verifAssert(!tooLong && r.code == 250, "C19.auth-line-within-max-never-refused")
	}
}

// verif_C19_mutants: hostile input that is ALMOST right. Grammar-derived command
// lines that exercise every argument parser of the server (source routes,
// quoted local parts, address literals, xtext and utf-8-addr-xtext values, NOTIFY
// lists, chunk sizes, SASL initial responses, greeting arguments) with ONE
// position - any position - replaced by an arbitrary octet, deleted, or
// doubled; the line is served behind the prelude it needs. Whatever the server
// makes of it: no crash, no recovered panic, nothing logged, well-formed
// replies, and the connection still answers the NOOP behind it (or has closed
// it with a final 5xx/4xx notice).
func verif_C19_mutants() {
	type tpl struct{ prelude, line, tail string }
	tpls := []tpl{
		{"", "MAIL FROM:<@a,@b:u@h> SIZE=10 BODY=8BITMIME", ""},
		{"MAIL FROM:<s@v>\r\n", "RCPT TO:<@a,@b:u@h> NOTIFY=SUCCESS,DELAY ORCPT=rfc822;a+40b", ""},
		{"", "MAIL FROM:<\"a\\b\"@h> RET=HDRS ENVID=a+2Bb AUTH=<>", ""},
		{"MAIL FROM:<s@v> SMTPUTF8\r\n", "RCPT TO:<u@[1.2.3.4]> ORCPT=utf-8;a\\x{41}b", ""},
		{"", "MAIL FROM:<u@h> AUTH=a+3Db@c REQUIRETLS SMTPUTF8", ""},
		{"MAIL FROM:<s@v>\r\nRCPT TO:<r@v>\r\n", "BDAT 3 LAST", "abc"},
		{"", "AUTH PLAIN AGEAYg==", ""},
		{"", "EHLO [1.2.3.4] x", ""},
		{"", "VRFY <a@b>", ""},
	}
	t := tpls[verifChoice(len(tpls))]
	b := []byte(t.line)
	pos := nondetInt(0, len(b)-1)
	var line []byte
	switch verifChoice(3) {
	case 0:
		x := nondetByte()
		assume(x != '\n')
		line = append(append(append(line, b[:pos]...), x), b[pos+1:]...)
	case 1:
		line = append(append(line, b[:pos]...), b[pos+1:]...)
	case 2:
		line = append(append(append(line, b[:pos+1]...), b[pos]), b[pos+1:]...)
	}
	be := &vbackend{authSession: true, mechs: []string{"PLAIN"}}
	be.saslFn = func(_ *vsession, mech string) (sasl.Server, error) { return &vsasl{failAt: -1}, nil }
	s, lg := verifServer(be)
	s.EnableSMTPUTF8, s.EnableREQUIRETLS, s.EnableBINARYMIME, s.EnableDSN, s.EnableRRVS = true, true, true, true, true
	s.AllowInsecureAuth = true
	in := "EHLO c\r\n" + t.prelude + string(line) + "\r\n" + t.tail + "NOOP\r\n"
	vc, _, err := verifServe(s, []byte(in), io.EOF)
	reps, wf := verifParseReplies(vc.out)
	verifObserve("c19mut", t.line, pos, string(line), wf, len(reps), lg.lines)
	verifAssert(err == nil && lg.lines == 0 && verifPanicEvents() == 0, "C19.mutant-no-crash")
	verifAssert(wf && len(reps) >= 3, "C19.mutant-wellformed")
	if wf && len(reps) >= 3 {
		last := reps[len(reps)-1]
		verifAssert(last.code == 250 || (vc.closed && last.code >= 400), "C19.mutant-command-mode-or-closed")
	}
	verifReach("C19.mutant-end")
}

// verif_C19_threshold_starttls_stub: the error budget belongs to the
// connection, not to the plaintext or the TLS phase of it: k unrecognised
// commands before a successful STARTTLS and the rest of the flood inside TLS -
// the connection is closed with the closing notice when the fourth error of
// the whole connection arrives, and nothing after it is answered.
func verif_C19_threshold_starttls_stub() {
	k := nondetInt(0, 3)
	be := &vbackend{}
	s, lg := verifServer(be)
	s.TLSConfig = &tls.Config{}
	plain := "EHLO p\r\n"
	for i := 0; i < k; i++ {
		plain += "FROB\r\n"
	}
	plain += "STARTTLS\r\n"
	inside := "EHLO i\r\n"
	for i := 0; i < 5; i++ {
		inside += "FROB\r\n"
	}
	inside += "NOOP\r\n"
	vc := &vconn{in: []byte(plain), final: io.EOF, tlsIn: []byte(inside), tlsFinal: io.EOF}
	conn := newConn(vc, s)
	err := s.handleConn(conn)
	reps, wf := verifParseReplies(vc.tlsOut)
	verifObserve("c19tls", k, wf, len(reps), lg.lines)
	verifAssert(err == nil && lg.lines == 0 && verifPanicEvents() == 0, "C19.threshold-starttls-no-crash")
	verifAssert(wf, "C19.threshold-starttls-wellformed")
	if !wf {
		return
	}
	// inside TLS: the EHLO reply, one 500 per error up to the fourth error of
	// the connection, then the closing notice
	want := 1 + (4 - k) + 1
	verifAssert(len(reps) == want, "C19.threshold-starttls-closed-at-the-fourth-error-of-the-connection")
	if len(reps) == want {
		last := reps[len(reps)-1]
		verifAssert(last.code == 500 && vc.closed, "C19.threshold-starttls-closing-notice")
	}
	verifReach("C19.threshold-starttls-end")
}

// verif_C19_bdat_states: BDAT in every state it can arrive in - un-greeted,
// greeted, MAIL, MAIL+RCPT - with a size of 0, within or over the size limit,
// with and without LAST, SMTP and LMTP, a limit configured or not: no crash, no
// recovered panic, nothing logged, well-formed replies.
func verif_C19_bdat_states() {
	lmtp := nondetBool()
	state := verifChoice(4)
	size := []int{0, 3, 9}[verifChoice(3)]
	last := nondetBool()
	limited := nondetBool()
	be := &vbackend{lmtpSession: lmtp && nondetBool()}
	s, lg := verifServer(be)
	s.LMTP = lmtp
	if limited {
		s.MaxMessageBytes = 5
	}
	in := ""
	if state >= 1 {
		if lmtp {
			in += "LHLO c\r\n"
		} else {
			in += "EHLO c\r\n"
		}
	}
	if state >= 2 {
		in += "MAIL FROM:<s@v>\r\n"
	}
	if state >= 3 {
		in += "RCPT TO:<r@v>\r\n"
	}
	in += "BDAT " + strconv.Itoa(size)
	if last {
		in += " LAST"
	}
	in += "\r\n" + "abcdefghi"[:size] + "NOOP\r\n"
	vc, _, err := verifServe(s, []byte(in), io.EOF)
	_, wf := verifParseReplies(vc.out)
	verifObserve("c19bdat", lmtp, state, size, last, limited, wf, lg.lines)
	verifAssert(err == nil && lg.lines == 0 && verifPanicEvents() == 0, "C19.bdat-states-no-crash")
	verifAssert(wf, "C19.bdat-states-wellformed")
	verifAssert(verifGoroutinesAlive() == 0, "C19.bdat-states-no-goroutine-left")
	verifReach("C19.bdat-states-end")
}
