package exec

import (
	"net"

	"golang.org/x/tools/go/ssa"
)

type ssaGlobal = ssa.Global

func netSplitHostPort(s string) (string, string, error) { return net.SplitHostPort(s) }
