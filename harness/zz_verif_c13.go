package smtp

import (
	"errors"
	"io"
	"strconv"
)

var verifStatusText = "later"

func verifStatusErr(k int) error {
	switch k {
	case 1:
		return &SMTPError{Code: 450, EnhancedCode: EnhancedCode{4, 2, 0}, Message: verifStatusText}
	case 2:
		return &SMTPError{Code: 550, EnhancedCode: EnhancedCode{5, 1, 1}, Message: "no"}
	}
	return nil
}

func verifStatusCode(k int) int { return []int{250, 450, 550}[k] }

// verif_C13_lmtp: an LMTP transaction with an arbitrary recipient list over two
// addresses and a backend that issues an arbitrary script of SetStatus calls
// (before and after consuming the message, at most one per occurrence of a
// recipient), returns nil or an error, or panics.
// Oracle: exactly one final reply per accepted RCPT, in RCPT order, each
// naming its recipient and carrying the k-th status set for that address for
// its k-th occurrence, else the return value (421 after a panic). The
// scheduler explores pre-emptions of the delivery goroutine; a deadlock or a
// leaked goroutine is a violation.
func verif_C13_lmtp() { verifC13(2, verifBound(1, 2)) }

// three recipients, one pre-emption (thorough tier only)
func verif_C13_lmtp3_thorough() { verifC13(3, 1) }

func verifC13(maxRcpt, preempt int) {
	verifPreemptBound(preempt)
	// the text of the 450 status carries one arbitrary printable octet
	tb := nondetByte()
	assume(tb > ' ' && tb < 0x7f)
	verifStatusText = "full" + string([]byte{tb}) + "now"
	n := nondetInt(1, maxRcpt)
	addrs := []string{"a@v", "b@v"}
	rcpts := make([]int, n)
	for i := range rcpts {
		rcpts[i] = verifChoice(2)
	}
	perRcpt := nondetBool()
	bdat := nondetBool()
	type call struct {
		addr, st int
		after    bool
	}
	var script []call
	ret := verifChoice(3)
	doPanic := false
	if perRcpt {
		m := nondetInt(0, n)
		for i := 0; i < m; i++ {
			script = append(script, call{verifChoice(2), verifChoice(3), nondetBool()})
		}
		doPanic = nondetBool()
	}
	early := nondetBool() // backend returns without reading the message
	// (returning success without consuming the message breaks the Session
	// contract "r must be consumed before Data returns"; failing early is legal)
	assume(!early || ret != 0 || doPanic)
	be := &vbackend{lmtpSession: perRcpt}
	// what the reference expects: simulate the collector's contract
	count := []int{0, 0}
	for _, r := range rcpts {
		count[r]++
	}
	set := [][]int{nil, nil}
	panicked := false
	simulate := func(c call) {
		if panicked {
			return
		}
		// a call for an unlisted recipient or one call too many breaks the
		// StatusCollector contract ("once per recipient"); the property ranges
		// over subsets and orders of the permitted calls only
		assume(count[c.addr] > 0 && len(set[c.addr]) < count[c.addr])
		set[c.addr] = append(set[c.addr], c.st)
	}
	for _, c := range script {
		if !c.after {
			simulate(c)
		}
	}
	if !early {
		for _, c := range script {
			if c.after {
				simulate(c)
			}
		}
	}
	if doPanic {
		panicked = true
	}
	be.lmtpFn = func(_ *vsession, r io.Reader, st StatusCollector) error {
		for _, c := range script {
			if !c.after {
				st.SetStatus(addrs[c.addr], verifStatusErr(c.st))
			}
		}
		if !early {
			verifReadAll(r, 4)
			for _, c := range script {
				if c.after {
					st.SetStatus(addrs[c.addr], verifStatusErr(c.st))
				}
			}
		}
		if doPanic {
			panic("verif: injected LMTPData panic")
		}
		return verifStatusErr(ret)
	}
	be.dataFn = func(_ *vsession, r io.Reader) error {
		if !early {
			verifReadAll(r, 4)
		}
		return verifStatusErr(ret)
	}
	s, _ := verifServer(be)
	s.LMTP = true
	in := "LHLO c\r\nMAIL FROM:<s@v>\r\n"
	for _, r := range rcpts {
		in += "RCPT TO:<" + addrs[r] + ">\r\n"
	}
	if bdat {
		in += "BDAT 3 LAST\r\nx\r\n"
	} else {
		in += "DATA\r\nx\r\n.\r\n"
	}
	in += "NOOP\r\n"
	vc, _, _ := verifServe(s, []byte(in), io.EOF)
	reps, wf := verifParseReplies(vc.out)
	verifAssert(wf, "C13.replies-wellformed")
	if !wf {
		return
	}
	base := 3 + n
	if !bdat {
		base++ // 354
	}
	finals := reps[base:]
	closedByPanic := panicked && perRcpt
	nfinal := len(finals)
	if !closedByPanic && nfinal > 0 {
		nfinal-- // the NOOP reply
	}
	verifObserve("c13", n, perRcpt, bdat, len(script), ret, doPanic, early, len(finals))
	verifAssert(nfinal == n, "C13.one-reply-per-accepted-recipient")
	if nfinal != n {
		return
	}
	used := []int{0, 0}
	for i, r := range rcpts {
		want := verifStatusCode(ret)
		if perRcpt {
			if used[r] < len(set[r]) {
				want = verifStatusCode(set[r][used[r]])
			} else if panicked {
				want = 421
			}
			used[r]++
		}
		f := finals[i]
		prefix := "<" + addrs[r] + "> "
		txt := f.lines[len(f.lines)-1]
		named := len(txt) >= 6+len(prefix) && txt[6:6+len(prefix)] == prefix
		verifAssert(named, "C13.reply-names-its-recipient")
		verifAssert(f.code == want, "C13.reply-carries-own-status")
		if want == 450 && named {
			verifAssert(txt[6+len(prefix):] == verifStatusText, "C13.reply-carries-own-status-text")
		}
	}
	if !closedByPanic {
		verifReach("C13.connection-continues")
		verifAssert(finals[n].code == 250, "C13.command-mode-after-delivery")
	} else {
		verifReach("C13.closed-after-panic")
	}
	verifAssert(verifGoroutinesAlive() == 0, "C13.no-goroutine-left")
	_ = errors.New
	_ = strconv.Itoa
}

// verif_C13_isolation: "correctly attributed", across messages, with the real
// code as its own oracle. On one LMTP connection with a per-recipient backend
// two earlier messages (recipient lists with and without a repeated address,
// statuses set explicitly or left to the return value) are followed by a third
// one whose recipient list, SetStatus script and return value are arbitrary;
// its replies must be exactly those the same message gets on a fresh
// connection: no status of an earlier message is ever reported for a later one.
func verif_C13_isolation() {
	verifPreemptBound(0)
	verifSchedForkBound(0)
	type msg struct {
		rcpts []string
		sets  []int // per SetStatus call, in recipient order: 0 ok, 1 450, 2 550, 3 no call
		ret   int
	}
	history := []msg{
		{[]string{"b@v", "b@v"}, []int{3, 3}, 0},
		{[]string{"b@v", "b@v"}, []int{0, 1}, 0},
		{[]string{"b@v", "c@v"}, []int{3, 3}, 2},
		{[]string{"b@v"}, []int{3}, 0},
		{[]string{"b@v"}, []int{1}, 0},
		{[]string{"b@v", "c@v", "b@v"}, []int{2, 3, 3}, 1},
	}
	h1 := history[verifChoice(len(history))]
	h2 := history[verifChoice(len(history))]
	var last msg
	last.rcpts = [][]string{{"b@v"}, {"b@v", "b@v"}, {"b@v", "c@v"}, {"c@v", "b@v"}}[verifChoice(4)]
	for range last.rcpts {
		last.sets = append(last.sets, verifChoice(4))
	}
	last.ret = verifChoice(3)
	bdat := nondetBool()
	run := func(msgs []msg) []byte {
		be := &vbackend{lmtpSession: true}
		k := 0
		be.lmtpFn = func(_ *vsession, r io.Reader, st StatusCollector) error {
			m := msgs[k]
			k++
			verifReadAll(r, 4)
			for i, a := range m.rcpts {
				if m.sets[i] != 3 {
					st.SetStatus(a, verifStatusErr(m.sets[i]))
				}
			}
			return verifStatusErr(m.ret)
		}
		s, _ := verifServer(be)
		s.LMTP = true
		in := "LHLO c\r\n"
		mark := 0
		for i, m := range msgs {
			if i == len(msgs)-1 {
				mark = len(in)
			}
			in += "MAIL FROM:<s@v>\r\n"
			for _, a := range m.rcpts {
				in += "RCPT TO:<" + a + ">\r\n"
			}
			if bdat {
				in += "BDAT 2 LAST\r\nhi"
			} else {
				in += "DATA\r\nhi\r\n.\r\n"
			}
		}
		vc := &vconn{in: []byte(in), final: io.EOF, cuts: []int{mark}}
		omark := 0
		c := newConn(vc, s)
		// note the output position when the last message starts
		vc.onRead = func(pos int) {
			if pos == mark {
				omark = len(vc.out)
			}
		}
		s.handleConn(c)
		verifSettle()
		return vc.out[omark:]
	}
	verifStatusText = "later"
	a := run([]msg{h1, h2, last})
	b := run([]msg{last})
	ra, wfa := verifParseReplies(a)
	rb, wfb := verifParseReplies(b)
	verifObserve("c13iso", bdat, len(last.rcpts), last.ret, wfa, wfb, len(ra), len(rb))
	// MAIL, one per RCPT, 354 for DATA, one final reply per recipient
	wantN := 1 + 2*len(last.rcpts)
	if !bdat {
		wantN++
	}
	verifAssert(wfa && wfb && len(rb) == wantN, "C13.isolation-fresh-reply-count")
	verifAssert(string(a) == string(b), "C13.isolation-later-message-gets-its-own-statuses")
	verifReach("C13.isolation-end")
}
