package smtp

import (
	"crypto/tls"
	"github.com/emersion/go-sasl"
	"io"
	"strconv"
	"strings"
	"time"
)

type vconfig struct {
	utf8, reqtls, binmime, dsn, rrvs bool
	size, rcptmax                    int
	tls                              int // 0 none, 1 available, 2 active
	insecureAuth, authBackend, lmtp  bool
}

// refCaps: the capability lines the configuration makes available, in any
// order, written from the statement (not from handleGreet).
func refCaps(c vconfig) map[string]bool {
	caps := map[string]bool{"PIPELINING": true, "8BITMIME": true, "ENHANCEDSTATUSCODES": true, "CHUNKING": true}
	if c.tls == 1 {
		caps["STARTTLS"] = true
	}
	if (c.tls == 2 || c.insecureAuth) && c.authBackend {
		caps["AUTH PLAIN XVERIF"] = true
	}
	if c.utf8 {
		caps["SMTPUTF8"] = true
	}
	if c.tls == 2 && c.reqtls {
		caps["REQUIRETLS"] = true
	}
	if c.binmime {
		caps["BINARYMIME"] = true
	}
	if c.dsn {
		caps["DSN"] = true
	}
	if c.size > 0 {
		caps["SIZE "+strconv.Itoa(c.size)] = true
	} else {
		caps["SIZE"] = true
	}
	if c.rcptmax > 0 {
		caps["LIMITS RCPTMAX="+strconv.Itoa(c.rcptmax)] = true
	}
	if c.rrvs {
		caps["RRVS"] = true
	}
	return caps
}

func verifConfigServer(cfg vconfig) (*Server, *vbackend, *vlogger) {
	be := &vbackend{authSession: cfg.authBackend, mechs: []string{"PLAIN", "XVERIF"}}
	s, lg := verifServer(be)
	s.EnableSMTPUTF8, s.EnableREQUIRETLS, s.EnableBINARYMIME, s.EnableDSN, s.EnableRRVS = cfg.utf8, cfg.reqtls, cfg.binmime, cfg.dsn, cfg.rrvs
	s.MaxMessageBytes = int64(cfg.size)
	s.MaxRecipients = cfg.rcptmax
	s.AllowInsecureAuth = cfg.insecureAuth
	s.LMTP = cfg.lmtp
	if cfg.tls >= 1 {
		s.TLSConfig = &tls.Config{}
	}
	return s, be, lg
}

func verifC12(tlsActive bool) {
	var cfg vconfig
	cfg.utf8, cfg.reqtls, cfg.binmime, cfg.dsn, cfg.rrvs = nondetBool(), nondetBool(), nondetBool(), nondetBool(), nondetBool()
	if nondetBool() {
		cfg.size = 1000
	}
	if nondetBool() {
		cfg.rcptmax = 7
	}
	if tlsActive {
		cfg.tls = 2
	} else if nondetBool() {
		cfg.tls = 1
	}
	cfg.insecureAuth, cfg.authBackend, cfg.lmtp = nondetBool(), nondetBool(), nondetBool()
	s, be, lg := verifConfigServer(cfg)
	be.saslFn = func(_ *vsession, mech string) (sasl.Server, error) { return &vsasl{failAt: -1}, nil }
	hello := "EHLO"
	if cfg.lmtp {
		hello = "LHLO"
	}
	// one probe per run
	probe := verifChoice(15)
	probes := []string{
		"MAIL FROM:<a@v> SMTPUTF8", "MAIL FROM:<a@v> REQUIRETLS", "MAIL FROM:<a@v> BODY=BINARYMIME",
		"MAIL FROM:<a@v> RET=FULL", "MAIL FROM:<a@v> ENVID=x", "MAIL FROM:<a@v> SIZE=10 BODY=8BITMIME",
		"STARTTLS", "MAIL FROM:<a@v>\r\nRCPT TO:<b@v> NOTIFY=NEVER", "MAIL FROM:<a@v>\r\nRCPT TO:<b@v> ORCPT=rfc822;x",
		"MAIL FROM:<a@v>\r\nRCPT TO:<b@v> RRVS=2014-04-03T23:01:00Z",
		"MAIL FROM:<a@v>\r\nRCPT TO:<b@v> RRVS=2014-04-03T23:01:00Z;C",
		"AUTH XVERIF =\r\nSTARTTLS", // an offered STARTTLS stays available after AUTH (whatever became of it)
		// a gated parameter with an empty value, or without the value it needs: refused in any case
		"MAIL FROM:<a@v> RET=", "MAIL FROM:<a@v> ENVID=", "MAIL FROM:<a@v> RET",
	}
	if nondetBool() {
		// keywords and enumerated values are case-insensitive: the same probes
		// in lower case must be gated in exactly the same way
		probes = []string{
			"MAIL FROM:<a@v> smtputf8", "MAIL FROM:<a@v> requiretls", "MAIL FROM:<a@v> body=binarymime",
			"MAIL FROM:<a@v> ret=full", "MAIL FROM:<a@v> envid=x", "MAIL FROM:<a@v> size=10 body=8bitmime",
			"starttls", "MAIL FROM:<a@v>\r\nRCPT TO:<b@v> notify=never", "MAIL FROM:<a@v>\r\nRCPT TO:<b@v> orcpt=rfc822;x",
			"MAIL FROM:<a@v>\r\nRCPT TO:<b@v> rrvs=2014-04-03T23:01:00Z",
			"MAIL FROM:<a@v>\r\nRCPT TO:<b@v> rrvs=2014-04-03T23:01:00Z;c",
			"auth XVERIF =\r\nstarttls",
			"MAIL FROM:<a@v> ret=", "MAIL FROM:<a@v> envid=", "MAIL FROM:<a@v> ret",
		}
	}
	in := hello + " c\r\n" + probes[probe] + "\r\n"
	if (probe == 6 || probe == 11) && !tlsActive {
		// STARTTLS from plaintext never gets through here (the handshake
		// fails): the connection stays what it was, and a second greeting
		// must list exactly what the first one did
		in += hello + " c\r\n"
	}
	vc := &vconn{in: []byte(in), final: io.EOF, tlsIn: []byte(in), tlsFinal: io.EOF}
	// without a TLS peer a real handshake over this connection fails; the stub
	// is told to fail likewise so that native and symbolic runs agree
	vc.tlsFail = !tlsActive
	var conn *Conn
	if tlsActive {
		conn = newConn(tls.Server(vc, s.TLSConfig), s)
	} else {
		conn = newConn(vc, s)
	}
	s.handleConn(conn)
	out := vc.out
	if tlsActive {
		out = vc.tlsOut
	}
	reps, wf := verifParseReplies(out)
	verifAssert(wf && len(reps) >= 3 && lg.lines == 0, "C12.replies")
	if !wf || len(reps) < 3 {
		return
	}
	eh := reps[1]
	verifAssert(eh.code == 250 && len(eh.lines) >= 1 && eh.lines[0] == "Hello c", "C12.ehlo-250")
	want := refCaps(cfg)
	got := map[string]bool{}
	for _, l := range eh.lines[1:] {
		verifAssert(!got[l], "C12.no-duplicate-capability")
		got[l] = true
		verifAssert(want[l], "C12.no-capability-beyond-configuration")
	}
	for l := range want {
		verifAssert(got[l], "C12.every-configured-capability-advertised")
	}
	verifObserve("c12", len(eh.lines), probe, reps[len(reps)-1].code)
	// probe outcome
	last := reps[len(reps)-1]
	if (probe == 6 || probe == 11) && !tlsActive {
		again := last
		last = reps[len(reps)-2]
		if last.code == 220 && len(reps) >= 5 {
			last = reps[len(reps)-3] // 220, then the handshake error, then the greeting
		}
		same := again.code == 250 && len(again.lines) == len(eh.lines)
		if same {
			for i := range eh.lines {
				same = same && again.lines[i] == eh.lines[i]
			}
		}
		verifAssert(same, "C12.same-capabilities-after-failed-starttls")
	}
	if probe == 1 && !tlsActive && cfg.reqtls {
		// REQUIRETLS enabled by the configuration but not advertised (no TLS):
		// the statement fixes neither acceptance nor refusal - not judged
		return
	}
	enabled := []bool{cfg.utf8, cfg.reqtls, cfg.binmime, cfg.dsn, cfg.dsn, true, cfg.tls == 1, cfg.dsn, cfg.dsn, cfg.rrvs, cfg.rrvs, cfg.tls == 1, false, false, false}[probe]
	if probe >= 12 {
		// malformed use of a gated parameter: never accepted, enabled or not
		verifReach("C12.probe-malformed")
		verifAssert(last.code/100 == 5, "C12.malformed-gated-parameter-refused")
	} else if enabled {
		verifReach("C12.probe-enabled")
		if probe == 6 || probe == 11 {
			verifAssert(last.code == 220 || last.code == 550, "C12.advertised-starttls-accepted")
		} else {
			verifAssert(last.code == 250, "C12.advertised-extension-accepted")
		}
	} else {
		verifReach("C12.probe-disabled")
		if probe == 6 || probe == 11 {
			verifAssert(last.code/100 == 5, "C12.starttls-refused-when-not-offered")
		} else {
			verifAssert(last.code == 504, "C12.disabled-extension-504")
		}
	}
	_ = strings.Join
}

func verif_C12_caps()      { verifC12(false) }
func verif_C12_caps_stub() { verifC12(true) }

// verif_C12_helo: HELO lists no extension at all.
func verif_C12_helo() {
	var cfg vconfig
	cfg.utf8, cfg.dsn, cfg.rrvs, cfg.binmime = nondetBool(), nondetBool(), nondetBool(), nondetBool()
	cfg.tls = 1
	cfg.insecureAuth, cfg.authBackend = true, true
	s, _, _ := verifConfigServer(cfg)
	vc, _, _ := verifServe(s, []byte("HELO c\r\n"), io.EOF)
	reps, wf := verifParseReplies(vc.out)
	verifAssert(wf && len(reps) == 2 && reps[1].code == 250 && len(reps[1].lines) == 1, "C12.helo-lists-nothing")
	verifReach("C12.helo")
}

// verif_C12_regreet: the capability list is a function of the configuration
// and the TLS state, not of the greetings that came before. After HELO, after
// an earlier EHLO, or after both, an EHLO lists exactly what refCaps gives -
// and HELO in any position lists nothing -, and AUTH is then accepted exactly
// when that list offers it.
func verif_C12_regreet() {
	var cfg vconfig
	cfg.utf8, cfg.dsn = nondetBool(), nondetBool()
	if nondetBool() {
		cfg.size = 1000
	}
	if nondetBool() {
		cfg.tls = 1
	}
	cfg.insecureAuth, cfg.authBackend = nondetBool(), nondetBool()
	s, be, lg := verifConfigServer(cfg)
	be.saslFn = func(_ *vsession, mech string) (sasl.Server, error) { return &vsasl{failAt: -1}, nil }
	seqs := [][]string{{"HELO", "EHLO"}, {"EHLO", "EHLO"}, {"EHLO", "HELO", "EHLO"}, {"HELO", "HELO", "EHLO"}, {"EHLO", "HELO"}}
	seq := seqs[verifChoice(len(seqs))]
	in := ""
	for i, g := range seq {
		in += g + " c" + strconv.Itoa(i) + "\r\n"
	}
	in += "AUTH XVERIF =\r\nNOOP\r\n"
	vc, _, _ := verifServe(s, []byte(in), io.EOF)
	reps, wf := verifParseReplies(vc.out)
	verifAssert(wf && len(reps) == len(seq)+3 && lg.lines == 0, "C12.regreet-replies")
	if !wf || len(reps) != len(seq)+3 {
		return
	}
	want := refCaps(cfg)
	offered := false
	for i, g := range seq {
		r := reps[1+i]
		verifAssert(r.code == 250 && len(r.lines) >= 1 && strings.HasSuffix(r.lines[0], "Hello c"+strconv.Itoa(i)), "C12.regreet-250")
		if g == "HELO" {
			verifAssert(len(r.lines) == 1, "C12.regreet-helo-lists-nothing")
			offered = false
			continue
		}
		got := map[string]bool{}
		for _, l := range r.lines[1:] {
			verifAssert(!got[l], "C12.regreet-no-duplicate-capability")
			got[l] = true
			verifAssert(want[l], "C12.regreet-no-capability-beyond-configuration")
		}
		for l := range want {
			verifAssert(got[l], "C12.regreet-every-configured-capability-advertised")
		}
		offered = got["AUTH PLAIN XVERIF"]
	}
	ar := reps[len(seq)+1]
	verifObserve("c12regreet", len(seq), offered, ar.code)
	if seq[len(seq)-1] == "EHLO" {
		if offered {
			verifReach("C12.regreet-auth-offered")
			verifAssert(ar.code == 235, "C12.regreet-advertised-auth-accepted")
		} else {
			verifReach("C12.regreet-auth-not-offered")
			verifAssert(ar.code/100 == 5, "C12.regreet-unadvertised-auth-refused")
		}
	}
	verifAssert(reps[len(seq)+2].code == 250, "C12.regreet-command-mode")
}

// verif_C12_deadlines_stub: STARTTLS is offered, so the upgraded session has to
// keep answering. Real time is outside the engine, but what a stale deadline
// would do is visible without a clock: every configuration of ReadTimeout /
// WriteTimeout (each set or not) arms deadlines for certain directions in the
// plaintext phase; after STARTTLS - successful, or failed with the plaintext
// session going on - exactly the same directions run under a deadline, no
// more (a deadline nobody renews would cut the session off once it passes) and
// no fewer.
func verif_C12_deadlines_stub() {
	be := &vbackend{}
	s, lg := verifServer(be)
	s.TLSConfig = &tls.Config{}
	if nondetBool() {
		s.ReadTimeout = time.Second
	}
	if nondetBool() {
		s.WriteTimeout = time.Second
	}
	fail := nondetBool()
	conv := "EHLO c\r\nNOOP\r\nMAIL FROM:<a@v>\r\nRSET\r\n"
	vc := &vconn{in: []byte(conv + "STARTTLS\r\n"), final: io.EOF, tlsIn: []byte(conv), tlsFinal: io.EOF, tlsFail: fail}
	if fail {
		vc.in = append(vc.in, conv...)
		// (the continuation arrives in a read of its own)
		vc.cuts = []int{len(conv) + len("STARTTLS\r\n")}
	}
	mark := [4]int{}
	vc.onRead = func(pos int) {
		if pos == len(conv)+len("STARTTLS\r\n") && fail {
			// the plaintext continuation after the failed handshake starts here
			mark = [4]int{vc.plainRd, vc.plainRdArmed, vc.plainWr, vc.plainWrArmed}
		}
	}
	conn := newConn(vc, s)
	s.handleConn(conn)
	verifObserve("c12dl", s.ReadTimeout != 0, s.WriteTimeout != 0, fail, vc.plainRd, vc.plainRdArmed, vc.plainWr, vc.plainWrArmed, vc.insideRd, vc.insideRdArmed, vc.insideWr, vc.insideWrArmed)
	verifAssert(lg.lines == 0, "C12.deadlines-nothing-logged")
	if !fail {
		verifReach("C12.deadlines-upgraded")
		verifAssert(vc.insideRd > 0 && vc.insideWr > 0 && vc.plainRd > 0 && vc.plainWr > 0, "C12.deadlines-both-phases-ran")
		verifAssert((vc.plainRdArmed > 0) == (vc.insideRdArmed > 0), "C12.deadlines-same-read-discipline-inside-tls")
		verifAssert((vc.plainWrArmed > 0) == (vc.insideWrArmed > 0), "C12.deadlines-same-write-discipline-inside-tls")
	} else {
		verifReach("C12.deadlines-handshake-failed")
		// before / after the failed handshake
		rdB, rdBA, wrB, wrBA := mark[0], mark[1], mark[2], mark[3]
		verifAssert(rdB > 0 && vc.plainRd > rdB && vc.plainWr > wrB, "C12.deadlines-both-phases-ran")
		verifAssert((rdBA > 0) == (vc.plainRdArmed-rdBA > 0), "C12.deadlines-same-read-discipline-after-failed-handshake")
		verifAssert((wrBA > 0) == (vc.plainWrArmed-wrBA > 0), "C12.deadlines-same-write-discipline-after-failed-handshake")
	}
}
