package smtp

import (
	"io"
)

// refNormalize: what a go-smtp backend must read for a message written through
// the client's DATA writer: bare LF becomes CRLF, a final CRLF is ensured
// (nothing is added to a message that already ends in LF; the empty message
// becomes a single CRLF).
func refNormalize(b []byte) []byte {
	out := []byte{}
	for i, ch := range b {
		if ch == '\n' && (i == 0 || b[i-1] != '\r') {
			out = append(out, '\r', '\n')
			continue
		}
		out = append(out, ch)
	}
	if len(b) == 0 || b[len(b)-1] != '\n' {
		out = append(out, '\r', '\n')
	}
	return out
}

// verif_C16_body: client and server composed sequentially. A body of up to L
// arbitrary octets (CR only before LF) is written in three Write calls with
// arbitrary cut points; the octets the client put on the wire are then served
// by the real server; the backend must read refNormalize(body) and see the
// same envelope. Close returns the scripted verdict; a second Close is an
// error and writes nothing.
func verif_C16_body() {
	L := verifBound(4, 5)
	body := nondetBytes(L)
	for i, ch := range body {
		if ch == '\r' {
			assume(i+1 < len(body) && body[i+1] == '\n')
		}
	}
	cut1 := nondetInt(0, len(body))
	cut2 := nondetInt(cut1, len(body))
	lmtp := nondetBool()
	accept := nondetBool()
	final := "250 2.0.0 ok\r\n"
	if !accept {
		final = "554 5.3.0 rejected\r\n"
	}
	c, vc := verifClient("250 2.0.0 ok\r\n250 2.0.0 ok\r\n354 go\r\n"+final, nil)
	c.lmtp = lmtp
	verifAssert(c.Mail("s@v", nil) == nil && c.Rcpt("r@v", nil) == nil, "C16.envelope-accepted")
	var cbStatus *SMTPError
	cbCalls := 0
	var w io.WriteCloser
	var err error
	// LMTP: with a status callback, with an explicitly nil callback, or through Data()
	lmtpMode := 0
	if lmtp {
		lmtpMode = verifChoice(3)
	}
	switch {
	case lmtp && lmtpMode == 0:
		w, err = c.LMTPData(func(rcpt string, st *SMTPError) { cbCalls++; cbStatus = st })
	case lmtp && lmtpMode == 1:
		w, err = c.LMTPData(nil)
	default:
		w, err = c.Data()
	}
	verifAssert(err == nil, "C16.data-started")
	if err != nil {
		return
	}
	w.Write(body[:cut1])
	w.Write(body[cut1:cut2])
	w.Write(body[cut2:])
	cerr := w.Close()
	n1 := len(vc.out)
	cerr2 := w.Close()
	verifObserve("c16", body, cut1, cut2, lmtp, accept, cerr == nil, cerr2 == nil, len(vc.out) == n1)
	// verdict
	var verdict error = cerr
	if lmtp && lmtpMode == 0 {
		verifAssert(cbCalls == 1 && cerr == nil, "C16.lmtp-callback-once")
		if cbStatus != nil {
			verdict = cbStatus
		}
	}
	if accept {
		verifReach("C16.accepted")
		verifAssert(verdict == nil, "C16.close-reports-acceptance")
	} else {
		verifReach("C16.rejected")
		se, ok := verdict.(*SMTPError)
		verifAssert(ok && se != nil && se.Code == 554 && se.EnhancedCode == EnhancedCode{5, 3, 0} && se.Message == "rejected", "C16.close-reports-rejection")
	}
	verifAssert(cerr2 != nil, "C16.second-close-is-an-error")
	verifAssert(len(vc.out) == n1, "C16.second-close-writes-nothing")

	// server side
	var got []byte
	var rerr error
	be := &vbackend{}
	be.dataFn = func(_ *vsession, r io.Reader) error {
		got, rerr = verifReadAll(r, 3)
		if rerr == io.EOF {
			return nil
		}
		return rerr
	}
	s, _ := verifServer(be)
	s.LMTP = lmtp
	hello := "EHLO c\r\n"
	if lmtp {
		hello = "LHLO c\r\n"
	}
	in := append([]byte(hello), vc.out[:n1]...)
	in = append(in, "MAIL FROM:<marker@v>\r\n"...)
	verifServe(s, in, io.EOF)
	want := refNormalize(body)
	verifAssert(rerr == io.EOF, "C16.server-sees-complete-message")
	verifAssert(string(got) == string(want), "C16.body-arrives-normalised")
	verifAssert(be.find("Mail", "s@v") >= 0 && be.find("Rcpt", "r@v") >= 0 && be.count("Rcpt") == 1, "C16.envelope-arrives")
	verifAssert(be.find("Mail", "marker@v") >= 0 && be.count("Mail") == 2, "C16.nothing-of-the-body-executed")
}

// verif_C16_second_message: two messages sent one after the other through the
// SAME client connection (the writer of the first has been closed before the
// second transaction starts). Whatever the first message was - empty, ending
// in the middle of a line, ending in CR LF - the second one arrives as
// refNormalize of itself, and so does the first: no line state is carried from
// one message into the next.
func verif_C16_second_message() {
	b1 := nondetBytes(verifBound(2, 3))
	b2 := nondetBytes(verifBound(3, 4))
	for _, b := range [][]byte{b1, b2} {
		for i, ch := range b {
			if ch == '\r' {
				assume(i+1 < len(b) && b[i+1] == '\n')
			}
		}
	}
	lmtp := nondetBool()
	tx := "250 2.0.0 ok\r\n250 2.0.0 ok\r\n354 go\r\n250 2.0.0 ok\r\n"
	c, vc := verifClient(tx+tx, nil)
	c.lmtp = lmtp
	send := func(from string, b []byte) bool {
		if c.Mail(from, nil) != nil || c.Rcpt("r@v", nil) != nil {
			return false
		}
		var w io.WriteCloser
		var err error
		if lmtp && nondetBool() {
			w, err = c.LMTPData(func(string, *SMTPError) {})
		} else {
			w, err = c.Data()
		}
		if err != nil {
			return false
		}
		cut := nondetInt(0, len(b))
		w.Write(b[:cut])
		w.Write(b[cut:])
		return w.Close() == nil
	}
	ok1 := send("one@v", b1)
	ok2 := send("two@v", b2)
	verifAssert(ok1 && ok2, "C16.second-message-both-sent")
	if !ok1 || !ok2 {
		return
	}
	var got [][]byte
	var rerrs []error
	be := &vbackend{}
	be.dataFn = func(_ *vsession, r io.Reader) error {
		g, rerr := verifReadAll(r, 3)
		got = append(got, g)
		rerrs = append(rerrs, rerr)
		if rerr == io.EOF {
			return nil
		}
		return rerr
	}
	s, _ := verifServer(be)
	s.LMTP = lmtp
	hello := "EHLO c\r\n"
	if lmtp {
		hello = "LHLO c\r\n"
	}
	in := append([]byte(hello), vc.out...)
	in = append(in, "MAIL FROM:<marker@v>\r\n"...)
	verifServe(s, in, io.EOF)
	verifObserve("c16second", b1, b2, lmtp, len(got))
	verifAssert(len(got) == 2, "C16.second-message-two-messages-arrive")
	if len(got) != 2 {
		return
	}
	verifAssert(rerrs[0] == io.EOF && rerrs[1] == io.EOF, "C16.second-message-both-complete")
	verifAssert(string(got[0]) == string(refNormalize(b1)), "C16.first-message-arrives-normalised")
	verifAssert(string(got[1]) == string(refNormalize(b2)), "C16.second-message-arrives-normalised")
	verifAssert(be.find("Mail", "marker@v") >= 0 && be.count("Mail") == 3, "C16.second-message-nothing-executed")
	verifReach("C16.second-message-end")
}

// verif_C16_envelope: "exactly the sender and recipient list given". A list of
// up to three recipients drawn from two addresses (so that repeats occur), each
// with nil or empty options, is handed to the client; every Rcpt is accepted.
// The octets the client wrote are then served by the real server: the backend
// must see exactly that list, in order, and in LMTP the status callback runs
// once per successful Rcpt, in order.
func verif_C16_envelope() {
	n := nondetInt(1, 3)
	addrs := []string{"a@v", "b@v"}
	var list []string
	script := "250 2.0.0 ok\r\n"
	for i := 0; i < n; i++ {
		list = append(list, addrs[verifChoice(2)])
		script += "250 2.0.0 ok\r\n"
	}
	lmtp := nondetBool()
	script += "354 go\r\n"
	// final verdicts: one per recipient in LMTP (each arbitrary), one in SMTP
	refused := false
	if lmtp {
		for i := 0; i < n; i++ {
			if nondetBool() {
				script += "250 2.0.0 ok\r\n"
			} else {
				script += "554 5.3.0 <" + list[i] + "> refused\r\n"
				refused = true
			}
		}
	} else {
		script += "250 2.0.0 ok\r\n"
	}
	script += "250 2.0.0 noop\r\n"
	c, vc := verifClient(script, nil)
	if nondetBool() {
		// every reply line arrives in a network read of its own
		for i := 0; i < len(script); i++ {
			if script[i] == '\n' {
				vc.cuts = append(vc.cuts, i+1)
			}
		}
	}
	c.lmtp = lmtp
	verifAssert(c.Mail("s@v", nil) == nil, "C16.env-mail-accepted")
	for _, a := range list {
		var o *RcptOptions
		if nondetBool() {
			o = &RcptOptions{}
		}
		verifAssert(c.Rcpt(a, o) == nil, "C16.env-rcpt-accepted")
	}
	var cb []string
	var w io.WriteCloser
	var err error
	withCb := lmtp && nondetBool()
	if withCb {
		w, err = c.LMTPData(func(rcpt string, st *SMTPError) { cb = append(cb, rcpt) })
	} else {
		w, err = c.Data()
	}
	verifAssert(err == nil, "C16.env-data-started")
	if err != nil {
		return
	}
	w.Write([]byte("x\r\n"))
	cerr := w.Close()
	verifAssert((cerr == nil) == (withCb || !refused), "C16.env-close")
	// the transaction has consumed exactly its own replies: the next command
	// reads its own
	wire := len(vc.out)
	verifAssert(c.Noop() == nil && vc.pos == len(vc.in), "C16.env-next-command-reads-its-own-reply")
	vc.out = vc.out[:wire]
	if withCb {
		ok := len(cb) == n
		for i := 0; ok && i < n; i++ {
			ok = cb[i] == list[i]
		}
		verifAssert(ok, "C16.env-one-callback-per-accepted-recipient-in-order")
	}
	be := &vbackend{}
	s, _ := verifServer(be)
	s.LMTP = lmtp
	hello := "EHLO c\r\n"
	if lmtp {
		hello = "LHLO c\r\n"
	}
	verifServe(s, append([]byte(hello), vc.out...), io.EOF)
	var got []string
	for _, e := range be.trace {
		if e.kind == "Rcpt" {
			got = append(got, e.arg)
		}
	}
	verifObserve("c16env", n, lmtp, len(got), len(cb))
	ok := len(got) == n
	for i := 0; ok && i < n; i++ {
		ok = got[i] == list[i]
	}
	verifAssert(ok, "C16.env-backend-sees-exactly-the-recipient-list")
	verifAssert(be.find("Mail", "s@v") >= 0 && be.count("Mail") == 1 && be.count("Data") == 1, "C16.env-one-transaction")
	verifReach("C16.env-end")
}

type verifPieceReader struct {
	data []byte
	cut  int
	pos  int
}

func (r *verifPieceReader) Read(b []byte) (int, error) {
	if r.pos >= len(r.data) {
		return 0, io.EOF
	}
	end := len(r.data)
	if r.pos < r.cut {
		end = r.cut
	}
	n := copy(b, r.data[r.pos:end])
	r.pos += n
	return n, nil
}

// verif_C16_sendmail: Client.SendMail is Mail, Rcpt for every recipient in
// order, Data, the message, Close - and stops at the first step the server
// refuses, returning that refusal. One or two recipients, a body of three
// arbitrary octets handed over by a Reader in two pieces, and the server
// refusing at an arbitrary step (or not at all): what SendMail writes and
// returns equals what the explicit sequence of calls writes and returns.
func verif_C16_sendmail() {
	n := nondetInt(1, 2)
	list := []string{"a@v", "b@v"}[:n]
	body := nondetBytesN(3)
	for i, ch := range body {
		if ch == '\r' {
			assume(i+1 < len(body) && body[i+1] == '\n')
		}
	}
	cut := nondetInt(0, len(body))
	failAt := nondetInt(0, n+3) // 0 MAIL, 1..n RCPT i, n+1 DATA, n+2 final reply, n+3 nothing fails
	script := ""
	step := func(ok, bad string, i int) {
		if failAt == i {
			script += bad
		} else {
			script += ok
		}
	}
	step("250 2.0.0 ok\r\n", "550 5.1.0 no sender\r\n", 0)
	for i := 1; i <= n; i++ {
		step("250 2.1.5 ok\r\n", "551 5.1.1 no user\r\n", i)
	}
	step("354 go\r\n", "554 5.3.0 no data\r\n", n+1)
	step("250 2.0.0 queued\r\n", "552 5.3.4 too big\r\n", n+2)
	code := func(err error) int {
		if err == nil {
			return 0
		}
		if se, ok := err.(*SMTPError); ok {
			return se.Code
		}
		return -1
	}
	// explicit sequence
	c1, vc1 := verifClient(script, nil)
	manual := func() error {
		if err := c1.Mail("s@v", nil); err != nil {
			return err
		}
		for _, a := range list {
			if err := c1.Rcpt(a, nil); err != nil {
				return err
			}
		}
		w, err := c1.Data()
		if err != nil {
			return err
		}
		w.Write(body[:cut])
		w.Write(body[cut:])
		return w.Close()
	}
	e1 := manual()
	// SendMail
	c2, vc2 := verifClient(script, nil)
	e2 := c2.SendMail("s@v", list, &verifPieceReader{data: body, cut: cut})
	verifObserve("c16sm", n, body, cut, failAt, code(e1), code(e2), len(vc1.out), len(vc2.out))
	verifAssert(code(e1) == code(e2), "C16.sendmail-returns-what-the-failing-step-returns")
	verifAssert(string(vc1.out) == string(vc2.out), "C16.sendmail-writes-what-the-explicit-calls-write")
	want := []int{550, 551, 551, 554, 552, 0}
	idx := failAt
	if failAt > n {
		idx = failAt - n + 2
	}
	verifAssert(code(e2) == want[idx], "C16.sendmail-reports-the-refusal")
	verifReach("C16.sendmail-end")
}

// verif_C16_cut: the client's octets reach the server cut at an ARBITRARY
// offset (and octet by octet). The body is two lines, the second starting with
// a dot, with two arbitrary octets: "<x> CRLF . <y> CRLF" - so that a cut can
// fall between CR and LF in front of a dot-stuffed line and in front of the end
// marker. The backend reads refNormalize(body) whatever the cut.
func verif_C16_cut() {
	x, y := nondetByte(), nondetByte()
	assume(x != '\r' && x != '\n' && y != '\r' && y != '\n')
	body := []byte{x, '\r', '\n', '.', y, '\r', '\n'}
	lmtp := nondetBool()
	c, vc := verifClient("250 2.0.0 ok\r\n250 2.0.0 ok\r\n354 go\r\n250 2.0.0 ok\r\n", nil)
	c.lmtp = lmtp
	verifAssert(c.Mail("s@v", nil) == nil && c.Rcpt("r@v", nil) == nil, "C16.cut-envelope-accepted")
	w, err := c.Data()
	verifAssert(err == nil, "C16.cut-data-started")
	if err != nil {
		return
	}
	w.Write(body)
	verifAssert(w.Close() == nil, "C16.cut-close")
	var got []byte
	var rerr error
	be := &vbackend{}
	be.dataFn = func(_ *vsession, r io.Reader) error {
		got, rerr = verifReadAll(r, 3)
		if rerr == io.EOF {
			return nil
		}
		return rerr
	}
	s, _ := verifServer(be)
	s.LMTP = lmtp
	hello := "EHLO c\r\n"
	if lmtp {
		hello = "LHLO c\r\n"
	}
	in := append([]byte(hello), vc.out...)
	in = append(in, "MAIL FROM:<marker@v>\r\n"...)
	svc := &vconn{in: in, final: io.EOF}
	if verifChoice(8) == 0 {
		svc.seg = 1
	} else {
		svc.cuts = []int{nondetInt(len(hello), len(in)-1)}
	}
	sconn := newConn(svc, s)
	s.handleConn(sconn)
	verifSettle()
	verifObserve("c16cut", x, y, lmtp, len(got), rerr == io.EOF)
	verifAssert(rerr == io.EOF, "C16.cut-server-sees-complete-message")
	verifAssert(string(got) == string(refNormalize(body)), "C16.cut-body-arrives-normalised")
	verifAssert(be.find("Mail", "marker@v") >= 0 && be.count("Mail") == 2, "C16.cut-nothing-of-the-body-executed")
	verifReach("C16.cut-end")
}
