// check: the command behind every MANIFEST.json entry.
//
//	check <ID> --tier quick|thorough     decide property ID on /repo's current tree
//	check --replay <file>                re-run a recorded counterexample natively
//	check --list                         list harnesses per property
package main

import (
	"flag"
	"fmt"
	"os"
	"runtime"
	"strings"
)

func main() {
	tier := flag.String("tier", envOr("VERIF_TIER", "quick"), "quick|thorough")
	harness := flag.String("harness", "", "run only this harness (debugging)")
	workers := flag.Int("workers", 0, "worker count (default: all cores)")
	replay := flag.String("replay", "", "replay file")
	list := flag.Bool("list", false, "list harnesses")
	repo := flag.String("repo", envOr("VERIF_REPO", "/repo"), "repository directory")
	verifDir := flag.String("verif", envOr("VERIF_DIR", "/verif"), "verif directory")
	noReplay := flag.Bool("no-native", false, "skip native replay/validation (debugging)")
	verbose := flag.Bool("v", false, "verbose")
	maxPaths := flag.Int64("max-paths", 0, "path limit per harness (debugging)")
	solver := flag.String("solver", "z3", "primary solver")
	// allow "check C01 --tier quick": flags after positional
	args := os.Args[1:]
	var pos []string
	var fl []string
	for i := 0; i < len(args); i++ {
		a := args[i]
		if strings.HasPrefix(a, "-") {
			fl = append(fl, a)
			if !strings.Contains(a, "=") && i+1 < len(args) && !strings.HasPrefix(args[i+1], "-") && !isBoolFlag(a) {
				fl = append(fl, args[i+1])
				i++
			}
		} else {
			pos = append(pos, a)
		}
	}
	flag.CommandLine.Parse(fl)
	if *workers <= 0 {
		*workers = runtime.NumCPU()
	}
	c := &checker{repo: *repo, verif: *verifDir, tier: *tier, workers: *workers, native: !*noReplay,
		verbose: *verbose, maxPaths: *maxPaths, only: *harness, solver: *solver}
	if *replay != "" {
		os.Exit(c.replayFile(*replay))
	}
	if *list {
		os.Exit(c.list())
	}
	if len(pos) != 1 {
		fmt.Fprintln(os.Stderr, "usage: check <ID> --tier quick|thorough")
		os.Exit(2)
	}
	os.Exit(c.run(pos[0]))
}

func isBoolFlag(a string) bool {
	a = strings.TrimLeft(a, "-")
	switch a {
	case "list", "no-native", "v":
		return true
	}
	return false
}

func envOr(k, d string) string {
	if v := os.Getenv(k); v != "" {
		return v
	}
	return d
}
