package smtp

import (
	"errors"
	"io"
	"strings"
)

// verifTextOctet: domain of backend message octets in C17: printable ASCII,
// space, and 8-bit octets; CR, LF, NUL and other controls are excluded (a
// backend message is text; line breaks are expressed by the harness).
func verifTextOctet(ch byte) bool {
	return ch >= 0x20 && ch != 0x7f
}

// verif_C17_trip: the backend fails one of its four callbacks with an
// arbitrary SMTPError (symbolic code 400..599, enhanced code set / unset /
// explicitly absent, message of one or two lines of arbitrary text octets) or
// with a plain error. The reply on the wire is parsed with the strict reply
// grammar and compared; then the same octets are given to the go-smtp client,
// whose returned error must equal the backend's (modulo unset -> X.0.0 and
// absent -> unset).
func verif_C17_trip() {
	which := verifChoice(4) // 0 NewSession, 1 Mail, 2 Rcpt, 3 Data
	plain := nondetBool()
	L := verifBound(2, 3)
	line1 := nondetString(L)
	for i := 0; i < len(line1); i++ {
		assume(verifTextOctet(line1[i]))
	}
	msg := line1
	nlines := 1
	if nondetBool() {
		line2 := nondetString(L)
		for i := 0; i < len(line2); i++ {
			assume(verifTextOctet(line2[i]))
		}
		msg = line1 + "\n" + line2
		nlines = 2
	}
	var berr error
	var want SMTPError
	if plain {
		berr = errors.New(msg)
		want = SMTPError{Code: 451, EnhancedCode: EnhancedCode{4, 0, 0}, Message: msg}
		if which == 3 {
			want = SMTPError{Code: 554, EnhancedCode: EnhancedCode{5, 0, 0}, Message: "Error: transaction failed: " + msg}
		}
	} else {
		code := nondetInt(400, 599)
		// (500/502 to EHLO make the client fall back to HELO: a different exchange)
		assume(which != 0 || (code != 500 && code != 502))
		se := &SMTPError{Code: code, Message: msg}
		want = SMTPError{Code: code, Message: msg}
		switch verifChoice(3) {
		case 0: // set
			a, b := nondetInt(0, 999), nondetInt(0, 999)
			se.EnhancedCode = EnhancedCode{code / 100, a, b}
			want.EnhancedCode = se.EnhancedCode
			assume(se.EnhancedCode != EnhancedCodeNotSet)
		case 1: // unset
			want.EnhancedCode = EnhancedCode{code / 100, 0, 0}
		case 2: // explicitly absent
			se.EnhancedCode = NoEnhancedCode
			want.EnhancedCode = NoEnhancedCode
		}
		berr = se
	}
	be := &vbackend{}
	switch which {
	case 0:
		be.newSessionErr = berr
	case 1:
		be.mailErr = func(string) error { return berr }
	case 2:
		be.rcptErr = func(string) error { return berr }
	case 3:
		be.dataFn = func(_ *vsession, r io.Reader) error {
			verifReadAll(r, 8)
			return berr
		}
	}
	s, _ := verifServer(be)
	if which == 3 && nondetBool() {
		// the message is also over the size limit; the backend read on
		// regardless and fails for its own reason: its error is the reply
		s.MaxMessageBytes = 2
	}
	in := "EHLO c\r\nMAIL FROM:<a@v>\r\nRCPT TO:<b@v>\r\nDATA\r\nx\r\n.\r\n"
	vc, _, _ := verifServe(s, []byte(in), io.EOF)
	reps, wf := verifParseReplies(vc.out)
	verifAssert(wf, "C17.wire-wellformed")
	if !wf {
		return
	}
	idx := []int{1, 2, 3, 5}[which]
	verifAssert(len(reps) > idx, "C17.reply-present")
	if len(reps) <= idx {
		return
	}
	r := reps[idx]
	verifObserve("c17", which, plain, msg, r.code, len(r.lines), r.hasEn)
	// --- on the wire
	verifAssert(r.code == want.Code, "C17.wire-code")
	verifAssert(len(r.lines) == nlines, "C17.wire-line-count")
	if want.EnhancedCode == NoEnhancedCode {
		verifReach("C17.no-enhanced-code")
	} else {
		verifReach("C17.enhanced-code")
		verifAssert(r.hasEn && r.enh == [3]int(want.EnhancedCode), "C17.wire-enhanced-code")
	}

	// --- through the client: feed exactly the octets the server wrote
	cl := NewClient(&vconn{in: vc.out, final: io.EOF})
	var cerr error
	cerr = cl.Hello("c")
	if which >= 1 && cerr == nil {
		cerr = cl.Mail("a@v", nil)
	}
	if which >= 2 && cerr == nil {
		cerr = cl.Rcpt("b@v", nil)
	}
	if which >= 3 && cerr == nil {
		w, e := cl.Data()
		cerr = e
		if e == nil {
			w.Write([]byte("x\r\n"))
			cerr = w.Close()
		}
	}
	got, ok := cerr.(*SMTPError)
	verifAssert(ok && got != nil, "C17.client-returns-smtperror")
	if !ok || got == nil {
		return
	}
	verifObserve("c17c", got.Code, got.Message, got.EnhancedCode[0], got.EnhancedCode[1], got.EnhancedCode[2])
	verifAssert(got.Code == want.Code, "C17.client-code")
	if want.EnhancedCode == NoEnhancedCode {
		// explicitly absent x text that looks like an enhanced code is
		// inherently ambiguous on the wire: not judged
		if _, looks := verifParseEnh(msg); !looks {
			verifAssert(got.EnhancedCode == EnhancedCodeNotSet && got.Message == want.Message, "C17.client-absent-code-and-text")
		}
	} else {
		verifAssert(got.EnhancedCode == want.EnhancedCode, "C17.client-enhanced-code")
		verifAssert(got.Message == want.Message, "C17.client-text")
	}
}

// verif_C17_lookalike: the backend opts out of enhanced codes (NoEnhancedCode)
// and its message begins with text that merely starts like one: "d.d.d"
// followed by one arbitrary octet, possibly with white space in front. Unless
// it is, at the very start of the text, exactly an enhanced code followed by a
// space (ambiguous on the wire, not judged), the client must return the message unaltered and no enhanced code.
func verif_C17_lookalike() {
	x := nondetByte()
	// text in front of it: nothing, or white space (then even "5.7.1 " is not
	// at the start of the text and so not an enhanced code)
	lead := []string{"", " ", "  "}[verifChoice(3)]
	// (a digit would extend the last component: still exactly an enhanced code)
	assume(verifTextOctet(x) && !(x >= '0' && x <= '9'))
	assume(x != ' ' || lead != "")
	msg := lead + "5.7.1" + string([]byte{x}) + " relaying denied"
	if verifChoice(2) == 1 {
		// the stray octet INSIDE what would otherwise be a code followed by a
		// space ("+5.7.1 ", "5.-7.1 ", "5.7.x1 " ...): digits and dots only make
		// an enhanced code, so none of these is one
		p := nondetInt(0, 4)
		msg = lead + "5.7.1"[:p] + string([]byte{x}) + "5.7.1"[p:] + " relaying denied"
	}
	which := verifChoice(2)
	berr := &SMTPError{Code: 550, EnhancedCode: NoEnhancedCode, Message: msg}
	be := &vbackend{}
	if which == 0 {
		be.mailErr = func(string) error { return berr }
	} else {
		be.rcptErr = func(string) error { return berr }
	}
	s, _ := verifServer(be)
	vc, _, _ := verifServe(s, []byte("EHLO c\r\nMAIL FROM:<a@v>\r\nRCPT TO:<b@v>\r\n"), io.EOF)
	cl := NewClient(&vconn{in: vc.out, final: io.EOF})
	cerr := cl.Hello("c")
	if cerr == nil {
		cerr = cl.Mail("a@v", nil)
	}
	if which == 1 && cerr == nil {
		cerr = cl.Rcpt("b@v", nil)
	}
	got, ok := cerr.(*SMTPError)
	verifAssert(ok && got != nil, "C17.lookalike-client-returns-smtperror")
	if !ok || got == nil {
		return
	}
	verifObserve("c17la", x, which, got.Code, got.Message, got.EnhancedCode[0])
	verifAssert(got.Code == 550, "C17.lookalike-code")
	verifAssert(got.EnhancedCode == EnhancedCodeNotSet, "C17.lookalike-no-invented-enhanced-code")
	verifAssert(got.Message == msg, "C17.lookalike-text-intact")
	verifReach("C17.lookalike-end")
}

// verif_C17_pair: TWO consecutive refusals on one connection (two RCPTs, or MAIL
// then MAIL, or the per-recipient statuses of one LMTP message), each with its
// own reply code out of five and its enhanced code set, unset or explicitly
// absent: every reply carries its own code, its own enhanced code (X.0.0 of
// ITS class when unset) and its own text - nothing is carried over from the
// reply before it.
func verif_C17_pair() {
	codes := []int{421, 450, 451, 550, 554}
	mk := func(tag string) (*SMTPError, int, EnhancedCode, bool) {
		code := codes[verifChoice(len(codes))]
		e := &SMTPError{Code: code, Message: "refused " + tag}
		want := EnhancedCode{code / 100, 0, 0}
		has := true
		switch verifChoice(3) {
		case 0:
			e.EnhancedCode = EnhancedCodeNotSet
		case 1:
			e.EnhancedCode = EnhancedCode{code / 100, 1, 1}
			want = e.EnhancedCode
		case 2:
			e.EnhancedCode = NoEnhancedCode
			has = false
		}
		return e, code, want, has
	}
	e1, c1, w1, h1 := mk("one")
	e2, c2, w2, h2 := mk("two")
	shape := verifChoice(3)
	be := &vbackend{lmtpSession: shape == 2}
	n := 0
	next := func() error {
		n++
		if n == 1 {
			return e1
		}
		return e2
	}
	var in string
	skip := 0
	switch shape {
	case 0:
		be.rcptErr = func(string) error { return next() }
		in = "EHLO c\r\nMAIL FROM:<a@v>\r\nRCPT TO:<b@v>\r\nRCPT TO:<c@v>\r\nNOOP\r\n"
		skip = 3
	case 1:
		be.mailErr = func(string) error { return next() }
		in = "EHLO c\r\nMAIL FROM:<a@v>\r\nMAIL FROM:<b@v>\r\nNOOP\r\n"
		skip = 2
	case 2:
		be.lmtpFn = func(_ *vsession, r io.Reader, st StatusCollector) error {
			verifReadAll(r, 4)
			st.SetStatus("b@v", e1)
			st.SetStatus("c@v", e2)
			return nil
		}
		in = "LHLO c\r\nMAIL FROM:<a@v>\r\nRCPT TO:<b@v>\r\nRCPT TO:<c@v>\r\nDATA\r\nx\r\n.\r\nNOOP\r\n"
		skip = 6
	}
	s, _ := verifServer(be)
	s.LMTP = shape == 2
	vc, _, _ := verifServe(s, []byte(in), io.EOF)
	reps, wf := verifParseReplies(vc.out)
	verifObserve("c17pair", shape, c1, c2, h1, h2, wf, len(reps))
	verifAssert(wf && len(reps) == skip+3, "C17.pair-replies")
	if !wf || len(reps) != skip+3 {
		return
	}
	check := func(r vreply, code int, want EnhancedCode, has bool, tag string) {
		verifAssert(r.code == code, "C17.pair-own-code")
		verifAssert(r.hasEn == has, "C17.pair-enhanced-code-present-iff-not-suppressed")
		if has && r.hasEn {
			verifAssert(r.enh == [3]int(want), "C17.pair-own-enhanced-code")
		}
		verifAssert(len(r.lines) == 1 && strings.HasSuffix(r.lines[0], "refused "+tag), "C17.pair-own-text")
	}
	check(reps[skip], c1, w1, h1, "one")
	check(reps[skip+1], c2, w2, h2, "two")
	verifAssert(reps[skip+2].code == 250, "C17.pair-command-mode-after")
	verifReach("C17.pair-end")
}

// verif_C17_client_seg: what the client reports does not depend on how the
// server's replies are cut into network reads. A reply stream with a multi-line
// positive reply, a multi-line refusal carrying enhanced codes, a refusal
// without enhanced code, 354 and a final verdict is delivered whole, octet by
// octet, and with one (quick) or two (thorough) cuts at ARBITRARY offsets;
// every call returns the same
// code, enhanced code and text.
func verif_C17_client_seg() {
	script := "250-2.1.0 sender\r\n250 2.1.0 ok\r\n" +
		"550-5.7.1 line one\r\n550 5.7.1 line two\r\n" +
		"451 try later\r\n" +
		"250 2.1.5 ok\r\n" +
		"354 go\r\n" +
		"554-5.6.0 bad\r\n554 5.6.0 content\r\n"
	type res struct {
		code int
		enh  EnhancedCode
		msg  string
	}
	run := func(seg int, cuts []int) []res {
		var out []res
		note := func(err error) {
			if err == nil {
				out = append(out, res{})
				return
			}
			if se, ok := err.(*SMTPError); ok {
				out = append(out, res{se.Code, se.EnhancedCode, se.Message})
				return
			}
			out = append(out, res{code: -1, msg: err.Error()})
		}
		c, vc := verifClient(script, nil)
		vc.seg, vc.cuts = seg, cuts
		note(c.Mail("s@v", nil))
		note(c.Rcpt("a@v", nil))
		note(c.Rcpt("b@v", nil))
		note(c.Rcpt("c@v", nil))
		w, err := c.Data()
		note(err)
		if err == nil {
			w.Write([]byte("x\r\n"))
			note(w.Close())
		}
		return out
	}
	ref := run(0, nil)
	verifAssert(len(ref) == 6 && ref[0].code == 0 && ref[1].code == 550 && ref[1].enh == EnhancedCode{5, 7, 1} && ref[1].msg == "line one\nline two" &&
		ref[2].code == 451 && ref[3].code == 0 && ref[4].code == 0 && ref[5].code == 554 && ref[5].msg == "bad\ncontent", "C17.client-seg-reference")
	var got []res
	if verifChoice(8) == 0 {
		got = run(1, nil)
	} else {
		c1 := nondetInt(1, len(script)-1)
		cuts := []int{c1}
		if verifBound(0, 1) == 1 {
			cuts = append(cuts, nondetInt(c1, len(script)-1))
		}
		got = run(0, cuts)
	}
	verifObserve("c17seg", len(ref), len(got))
	verifAssert(len(got) == len(ref), "C17.client-seg-same-calls")
	if len(got) == len(ref) {
		for i := range ref {
			verifAssert(got[i] == ref[i], "C17.client-seg-same-results")
		}
	}
	verifReach("C17.client-seg-end")
}
func verif_C17_two_messages() { verifTwoMessages("C17") }
