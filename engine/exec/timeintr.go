package exec

import (
	"go/types"
	"time"
)

// time.Parse / (time.Time).Format for CONCRETE arguments (calendar arithmetic is
// not encoded; a symbolic argument ends the path as inconclusive). Values live
// in UTC: a time parsed with a numeric zone offset keeps its instant and loses
// its zone; a time value with any other location is inconclusive. Used for the RRVS parameter on a concrete
// corpus of timestamps.

const unixToInternal = 62135596800

func (ex *Exec) timeStruct(t time.Time) value {
	tp := ex.prog.SSA.ImportedPackage("time")
	st := zero(tp.Type("Time").Type()).(structure)
	st[0] = uint64(t.Nanosecond())
	st[1] = uint64(t.Unix() + unixToInternal)
	st[2] = (*value)(nil)
	return st
}

func (ex *Exec) nativeTime(v value) time.Time {
	st := v.(structure)
	wall, ok1 := st[0].(uint64)
	ext, ok2 := st[1].(uint64)
	loc, _ := st[2].(*value)
	if !ok1 || !ok2 {
		ex.inconclusive("symbolic time value")
	}
	if loc != nil {
		ex.inconclusive("time value with a non-UTC location")
	}
	if wall>>63 != 0 {
		ex.inconclusive("time value with a monotonic reading")
	}
	return time.Unix(int64(ext)-unixToInternal, int64(wall&(1<<30-1))).UTC()
}

func init() {
	reg("time.Parse", func(ex *Exec, fr *frame, a []value) value {
		layout, ok1 := a[0].(string)
		val, ok2 := a[1].(string)
		if !ok1 || !ok2 {
			ex.inconclusive("time.Parse on symbolic text (calendar arithmetic is not encoded)")
		}
		t, err := time.Parse(layout, val)
		tp := ex.prog.SSA.ImportedPackage("time")
		if err != nil {
			return tuple{zero(tp.Type("Time").Type()), ex.newError(fr, err.Error(), iface{})}
		}
		// (a numeric zone offset is normalised to UTC: the INSTANT is exact,
		// the zone of the value is not kept - harnesses compare instants)
		return tuple{ex.timeStruct(t.UTC()), iface{}}
	})
	reg("(time.Time).Format", func(ex *Exec, fr *frame, a []value) value {
		layout, ok := a[1].(string)
		if !ok {
			ex.inconclusive("time.Format with a symbolic layout")
		}
		return ex.nativeTime(a[0]).Format(layout)
	})
	reg("time.Date", func(ex *Exec, fr *frame, a []value) value {
		var n [7]int
		for i := 0; i < 7; i++ {
			u, ok := a[i].(uint64)
			if !ok {
				ex.inconclusive("time.Date with symbolic arguments")
			}
			n[i] = int(int64(u))
		}
		if loc, _ := a[7].(*value); loc != nil {
			// only time.UTC is supported: its address is the global utcLoc
			tp := ex.prog.SSA.ImportedPackage("time")
			if g, ok := tp.Members["utcLoc"].(*ssaGlobal); !ok || ex.global(g) != loc {
				ex.inconclusive("time.Date with a non-UTC location")
			}
		}
		return ex.timeStruct(time.Date(n[0], time.Month(n[1]), n[2], n[3], n[4], n[5], n[6], time.UTC))
	})
}

var _ types.Type
