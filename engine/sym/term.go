// Package sym: hash-consed SMT terms (Bool and fixed-width bit-vectors),
// a constructor-time simplifier, a concrete evaluator and an SMT-LIB2 printer.
package sym

import (
	"fmt"
	"strings"
)

type Op uint8

const (
	OpConst Op = iota
	OpVar
	OpNot
	OpAnd
	OpOr
	OpIte
	OpEq
	OpAdd
	OpSub
	OpMul
	OpUDiv
	OpURem
	OpSDiv
	OpSRem
	OpBAnd
	OpBOr
	OpBXor
	OpBNot
	OpNeg
	OpShl
	OpLShr
	OpAShr
	OpUlt
	OpUle
	OpSlt
	OpSle
	OpExtract // Val = hi<<8 | lo
	OpZext
	OpSext
	OpConcat
)

var opNames = [...]string{
	OpNot: "not", OpAnd: "and", OpOr: "or", OpIte: "ite", OpEq: "=",
	OpAdd: "bvadd", OpSub: "bvsub", OpMul: "bvmul", OpUDiv: "bvudiv", OpURem: "bvurem",
	OpSDiv: "bvsdiv", OpSRem: "bvsrem", OpBAnd: "bvand", OpBOr: "bvor", OpBXor: "bvxor",
	OpBNot: "bvnot", OpNeg: "bvneg", OpShl: "bvshl", OpLShr: "bvlshr", OpAShr: "bvashr",
	OpUlt: "bvult", OpUle: "bvule", OpSlt: "bvslt", OpSle: "bvsle", OpConcat: "concat",
}

// Term is an immutable, hash-consed term. W == 0 means sort Bool, otherwise
// (_ BitVec W).
type Term struct {
	Op      Op
	W       uint8
	Val     uint64
	A, B, C *Term
	ID      uint32
	Name    string // variables only
	nvars   int8   // 0,1,2(=many): number of distinct variables below (saturating)
	onevar  *Term  // the single variable if nvars==1
}

type key struct {
	op      Op
	w       uint8
	val     uint64
	a, b, c uint32
}

// Ctx owns a hash-cons table. Not safe for concurrent use; one per worker.
type Ctx struct {
	tab    map[key]*Term
	nextID uint32
	True   *Term
	False  *Term
	// Known maps a term to a constant it is known to equal on the current
	// path (equality propagation). Reset per path by the executor.
	Known    map[*Term]*Term
	vars     map[string]*Term
	vecCache map[*Term]*Vec
}

func NewCtx() *Ctx {
	c := &Ctx{tab: map[key]*Term{}, Known: map[*Term]*Term{}, vars: map[string]*Term{}}
	c.True = c.mk(OpConst, 0, 1, nil, nil, nil)
	c.False = c.mk(OpConst, 0, 0, nil, nil, nil)
	return c
}

func (c *Ctx) ResetKnown() {
	if len(c.Known) > 0 {
		c.Known = map[*Term]*Term{}
	}
}

func idOf(t *Term) uint32 {
	if t == nil {
		return 0
	}
	return t.ID
}

func (c *Ctx) mk(op Op, w uint8, val uint64, a, b, cc *Term) *Term {
	k := key{op, w, val, idOf(a), idOf(b), idOf(cc)}
	if t, ok := c.tab[k]; ok {
		return t
	}
	c.nextID++
	t := &Term{Op: op, W: w, Val: val, A: a, B: b, C: cc, ID: c.nextID}
	// variable summary
	var ov *Term
	n := 0
	for _, ch := range [3]*Term{a, b, cc} {
		if ch == nil || ch.nvars == 0 {
			continue
		}
		if ch.nvars >= 2 {
			n = 2
			break
		}
		if ov == nil {
			ov = ch.onevar
			n = 1
		} else if ov != ch.onevar {
			n = 2
			break
		}
	}
	if n == 1 {
		t.onevar = ov
	}
	t.nvars = int8(n)
	c.tab[k] = t
	return t
}

func (t *Term) IsConst() bool { return t.Op == OpConst }
func (t *Term) IsBool() bool  { return t.W == 0 }

// OneVar returns the single variable the term depends on, or nil.
func (t *Term) OneVar() *Term {
	if t.nvars == 1 {
		return t.onevar
	}
	return nil
}
func (t *Term) NumVarsSat() int { return int(t.nvars) }

func mask(w uint8) uint64 {
	if w >= 64 {
		return ^uint64(0)
	}
	return (uint64(1) << w) - 1
}

func sext(v uint64, w uint8) int64 {
	if w >= 64 {
		return int64(v)
	}
	sh := 64 - uint(w)
	return int64(v<<sh) >> sh
}

func (c *Ctx) Bool(b bool) *Term {
	if b {
		return c.True
	}
	return c.False
}

func (c *Ctx) BV(v uint64, w uint8) *Term {
	return c.mk(OpConst, w, v&mask(w), nil, nil, nil)
}

// Var returns the variable with this name and width (0 = Bool).
func (c *Ctx) Var(name string, w uint8) *Term {
	if t, ok := c.vars[name]; ok {
		if t.W != w {
			panic(fmt.Sprintf("sym: variable %s redeclared with width %d (was %d)", name, w, t.W))
		}
		return t
	}
	c.nextID++
	t := &Term{Op: OpVar, W: w, ID: c.nextID, Name: name, nvars: 1}
	t.onevar = t
	c.vars[name] = t
	return t
}

func (c *Ctx) known(t *Term) *Term {
	if t == nil || t.Op == OpConst || len(c.Known) == 0 {
		return t
	}
	if k, ok := c.Known[t]; ok {
		return k
	}
	return t
}

func (c *Ctx) Not(a *Term) *Term {
	a = c.known(a)
	switch {
	case a == c.True:
		return c.False
	case a == c.False:
		return c.True
	case a.Op == OpNot:
		return a.A
	}
	return c.known(c.mk(OpNot, 0, 0, a, nil, nil))
}

func (c *Ctx) And(a, b *Term) *Term {
	a, b = c.known(a), c.known(b)
	switch {
	case a == c.False || b == c.False:
		return c.False
	case a == c.True:
		return b
	case b == c.True:
		return a
	case a == b:
		return a
	}
	if a.ID > b.ID {
		a, b = b, a
	}
	return c.known(c.mk(OpAnd, 0, 0, a, b, nil))
}

func (c *Ctx) Or(a, b *Term) *Term {
	a, b = c.known(a), c.known(b)
	switch {
	case a == c.True || b == c.True:
		return c.True
	case a == c.False:
		return b
	case b == c.False:
		return a
	case a == b:
		return a
	}
	if a.ID > b.ID {
		a, b = b, a
	}
	return c.known(c.mk(OpOr, 0, 0, a, b, nil))
}

func (c *Ctx) Ite(cond, a, b *Term) *Term {
	cond, a, b = c.known(cond), c.known(a), c.known(b)
	if a.W != b.W {
		panic("sym: ite width mismatch")
	}
	switch {
	case cond == c.True:
		return a
	case cond == c.False:
		return b
	case a == b:
		return a
	}
	if a.W == 0 {
		if a == c.True && b == c.False {
			return cond
		}
		if a == c.False && b == c.True {
			return c.Not(cond)
		}
	}
	if cond.Op == OpNot {
		cond, a, b = cond.A, b, a
	}
	return c.known(c.mk(OpIte, a.W, 0, cond, a, b))
}

func (c *Ctx) Eq(a, b *Term) *Term {
	a, b = c.known(a), c.known(b)
	if a.W != b.W {
		panic(fmt.Sprintf("sym: eq width mismatch %d vs %d", a.W, b.W))
	}
	if a == b {
		return c.True
	}
	if a.Op == OpConst && b.Op == OpConst {
		return c.Bool(a.Val == b.Val)
	}
	if a.Op == OpConst {
		a, b = b, a
	}
	if b.Op == OpConst {
		if a.W == 0 {
			if b == c.True {
				return a
			}
			return c.Not(a)
		}
		switch a.Op {
		case OpZext:
			// zext(x) == k  -->  x == k' or false
			if b.Val > mask(a.A.W) {
				return c.False
			}
			return c.Eq(a.A, c.BV(b.Val, a.A.W))
		case OpSext:
			lo := uint64(sext(b.Val&mask(a.A.W), a.A.W)) & mask(a.W)
			if lo != b.Val {
				return c.False
			}
			return c.Eq(a.A, c.BV(b.Val, a.A.W))
		case OpIte:
			// ite(c, k1, k2) == k
			if a.B.Op == OpConst && a.C.Op == OpConst {
				tb, fb := a.B.Val == b.Val, a.C.Val == b.Val
				switch {
				case tb && fb:
					return c.True
				case tb:
					return a.A
				case fb:
					return c.Not(a.A)
				default:
					return c.False
				}
			}
			if a.B.Op == OpConst {
				if a.B.Val == b.Val {
					return c.Or(a.A, c.Eq(a.C, b))
				}
				return c.And(c.Not(a.A), c.Eq(a.C, b))
			}
			if a.C.Op == OpConst {
				if a.C.Val == b.Val {
					return c.Or(c.Not(a.A), c.Eq(a.B, b))
				}
				return c.And(a.A, c.Eq(a.B, b))
			}
		case OpAdd:
			if a.B.Op == OpConst {
				return c.Eq(a.A, c.BV(b.Val-a.B.Val, a.W))
			}
		case OpSub:
			if a.B.Op == OpConst {
				return c.Eq(a.A, c.BV(b.Val+a.B.Val, a.W))
			}
		}
	}
	if a.ID > b.ID {
		a, b = b, a
	}
	return c.known(c.mk(OpEq, 0, 0, a, b, nil))
}

func (c *Ctx) binfold(op Op, w uint8, x, y uint64) (uint64, bool) {
	m := mask(w)
	switch op {
	case OpAdd:
		return (x + y) & m, true
	case OpSub:
		return (x - y) & m, true
	case OpMul:
		return (x * y) & m, true
	case OpUDiv:
		if y == 0 {
			return m, true
		}
		return x / y, true
	case OpURem:
		if y == 0 {
			return x, true
		}
		return x % y, true
	case OpSDiv:
		sx, sy := sext(x, w), sext(y, w)
		if sy == 0 {
			if sx < 0 {
				return 1, true
			}
			return m, true
		}
		if sy == -1 {
			return uint64(-sx) & m, true
		}
		return uint64(sx/sy) & m, true
	case OpSRem:
		sx, sy := sext(x, w), sext(y, w)
		if sy == 0 {
			return x, true
		}
		if sy == -1 {
			return 0, true
		}
		return uint64(sx%sy) & m, true
	case OpBAnd:
		return x & y, true
	case OpBOr:
		return x | y, true
	case OpBXor:
		return x ^ y, true
	case OpShl:
		if y >= uint64(w) {
			return 0, true
		}
		return (x << y) & m, true
	case OpLShr:
		if y >= uint64(w) {
			return 0, true
		}
		return x >> y, true
	case OpAShr:
		sx := sext(x, w)
		if y >= uint64(w) {
			y = uint64(w) - 1
		}
		return uint64(sx>>y) & m, true
	}
	return 0, false
}

// Bin builds a bit-vector binary operation of the operands' width.
func (c *Ctx) Bin(op Op, a, b *Term) *Term {
	a, b = c.known(a), c.known(b)
	if a.W != b.W || a.W == 0 {
		panic(fmt.Sprintf("sym: bin %s width mismatch %d vs %d", opNames[op], a.W, b.W))
	}
	w := a.W
	if a.Op == OpConst && b.Op == OpConst {
		if v, ok := c.binfold(op, w, a.Val, b.Val); ok {
			return c.BV(v, w)
		}
	}
	// commutative: constant to the right
	switch op {
	case OpAdd, OpMul, OpBAnd, OpBOr, OpBXor:
		if a.Op == OpConst {
			a, b = b, a
		}
	}
	if b.Op == OpConst {
		switch op {
		case OpAdd, OpSub, OpBOr, OpBXor, OpShl, OpLShr, OpAShr:
			if b.Val == 0 {
				return a
			}
		case OpMul:
			if b.Val == 0 {
				return b
			}
			if b.Val == 1 {
				return a
			}
		case OpUDiv, OpSDiv:
			if b.Val == 1 {
				return a
			}
		case OpBAnd:
			if b.Val == 0 {
				return b
			}
			if b.Val == mask(w) {
				return a
			}
			// zext(x) & k where k covers x's bits
			if a.Op == OpZext && b.Val&mask(a.A.W) == mask(a.A.W) {
				return a
			}
		}
		// (x + k1) + k2
		if op == OpAdd && a.Op == OpAdd && a.B.Op == OpConst {
			return c.Bin(OpAdd, a.A, c.BV(a.B.Val+b.Val, w))
		}
		if op == OpSub {
			return c.Bin(OpAdd, a, c.BV(-b.Val, w))
		}
	}
	if op == OpSub && a == b {
		return c.BV(0, w)
	}
	if op == OpBXor && a == b {
		return c.BV(0, w)
	}
	if (op == OpBAnd || op == OpBOr) && a == b {
		return a
	}
	return c.known(c.mk(op, w, 0, a, b, nil))
}

func (c *Ctx) BNot(a *Term) *Term {
	a = c.known(a)
	if a.Op == OpConst {
		return c.BV(^a.Val, a.W)
	}
	if a.Op == OpBNot {
		return a.A
	}
	return c.mk(OpBNot, a.W, 0, a, nil, nil)
}

func (c *Ctx) Neg(a *Term) *Term {
	a = c.known(a)
	if a.Op == OpConst {
		return c.BV(-a.Val, a.W)
	}
	return c.mk(OpNeg, a.W, 0, a, nil, nil)
}

// Cmp builds an unsigned/signed comparison.
func (c *Ctx) Cmp(op Op, a, b *Term) *Term {
	a, b = c.known(a), c.known(b)
	if a.W != b.W || a.W == 0 {
		panic("sym: cmp width mismatch")
	}
	w := a.W
	if a.Op == OpConst && b.Op == OpConst {
		switch op {
		case OpUlt:
			return c.Bool(a.Val < b.Val)
		case OpUle:
			return c.Bool(a.Val <= b.Val)
		case OpSlt:
			return c.Bool(sext(a.Val, w) < sext(b.Val, w))
		case OpSle:
			return c.Bool(sext(a.Val, w) <= sext(b.Val, w))
		}
	}
	if a == b {
		return c.Bool(op == OpUle || op == OpSle)
	}
	// narrow comparisons of zero-extended values against constants
	if a.Op == OpZext && b.Op == OpConst {
		iw := a.A.W
		if op == OpUlt || op == OpUle || ((op == OpSlt || op == OpSle) && w > iw) {
			sb := int64(b.Val)
			if op == OpSlt || op == OpSle {
				sb = sext(b.Val, w)
				if sb < 0 {
					return c.False
				}
			}
			if uint64(sb) > mask(iw) {
				return c.True
			}
			nop := OpUlt
			if op == OpUle || op == OpSle {
				nop = OpUle
			}
			return c.Cmp(nop, a.A, c.BV(uint64(sb), iw))
		}
	}
	if b.Op == OpZext && a.Op == OpConst {
		iw := b.A.W
		if op == OpUlt || op == OpUle || ((op == OpSlt || op == OpSle) && w > iw) {
			sa := int64(a.Val)
			if op == OpSlt || op == OpSle {
				sa = sext(a.Val, w)
				if sa < 0 {
					return c.True
				}
			}
			if uint64(sa) > mask(iw) {
				return c.False
			}
			nop := OpUlt
			if op == OpUle || op == OpSle {
				nop = OpUle
			}
			return c.Cmp(nop, c.BV(uint64(sa), iw), b.A)
		}
	}
	if a.Op == OpZext && b.Op == OpZext && a.A.W == b.A.W && w > a.A.W {
		nop := op
		if op == OpSlt {
			nop = OpUlt
		} else if op == OpSle {
			nop = OpUle
		}
		return c.Cmp(nop, a.A, b.A)
	}
	// trivial bounds
	if b.Op == OpConst {
		if op == OpUlt && b.Val == 0 {
			return c.False
		}
		if op == OpUle && b.Val == mask(w) {
			return c.True
		}
		if op == OpUle && b.Val == 0 {
			return c.Eq(a, b)
		}
	}
	if a.Op == OpConst {
		if op == OpUle && a.Val == 0 {
			return c.True
		}
		if op == OpUlt && a.Val == mask(w) {
			return c.False
		}
	}
	return c.known(c.mk(op, 0, 0, a, b, nil))
}

func (c *Ctx) Extract(a *Term, hi, lo uint8) *Term {
	a = c.known(a)
	w := hi - lo + 1
	if lo == 0 && w == a.W {
		return a
	}
	if a.Op == OpConst {
		return c.BV(a.Val>>lo, w)
	}
	if lo == 0 && (a.Op == OpZext || a.Op == OpSext) {
		if w == a.A.W {
			return a.A
		}
		if w < a.A.W {
			return c.Extract(a.A, hi, 0)
		}
		if a.Op == OpZext {
			return c.Zext(a.A, w)
		}
		return c.Sext(a.A, w)
	}
	if lo == 0 && a.Op == OpIte && a.B.Op == OpConst && a.C.Op == OpConst {
		return c.Ite(a.A, c.BV(a.B.Val, w), c.BV(a.C.Val, w))
	}
	return c.known(c.mk(OpExtract, w, uint64(hi)<<8|uint64(lo), a, nil, nil))
}

func (c *Ctx) Zext(a *Term, w uint8) *Term {
	a = c.known(a)
	if w == a.W {
		return a
	}
	if w < a.W {
		return c.Extract(a, w-1, 0)
	}
	if a.Op == OpConst {
		return c.BV(a.Val, w)
	}
	if a.Op == OpZext {
		return c.Zext(a.A, w)
	}
	return c.known(c.mk(OpZext, w, 0, a, nil, nil))
}

func (c *Ctx) Sext(a *Term, w uint8) *Term {
	a = c.known(a)
	if w == a.W {
		return a
	}
	if w < a.W {
		return c.Extract(a, w-1, 0)
	}
	if a.Op == OpConst {
		return c.BV(uint64(sext(a.Val, a.W)), w)
	}
	if a.Op == OpZext {
		return c.Zext(a.A, w)
	}
	return c.known(c.mk(OpSext, w, 0, a, nil, nil))
}

func (c *Ctx) Concat(hi, lo *Term) *Term {
	hi, lo = c.known(hi), c.known(lo)
	w := hi.W + lo.W
	if hi.Op == OpConst && lo.Op == OpConst {
		return c.BV(hi.Val<<lo.W|lo.Val, w)
	}
	if hi.Op == OpConst && hi.Val == 0 {
		return c.Zext(lo, w)
	}
	return c.mk(OpConcat, w, 0, hi, lo, nil)
}

// AndAll / OrAll are convenience folds.
func (c *Ctx) AndAll(ts ...*Term) *Term {
	r := c.True
	for _, t := range ts {
		r = c.And(r, t)
	}
	return r
}
func (c *Ctx) OrAll(ts ...*Term) *Term {
	r := c.False
	for _, t := range ts {
		r = c.Or(r, t)
	}
	return r
}

// ---------------------------------------------------------------------------
// Evaluation under an assignment (variable -> value). Missing variables are 0.

func Eval(t *Term, env map[*Term]uint64) uint64 {
	memo := map[*Term]uint64{}
	return eval(t, env, memo)
}

func eval(t *Term, env map[*Term]uint64, memo map[*Term]uint64) uint64 {
	switch t.Op {
	case OpConst:
		return t.Val
	case OpVar:
		return env[t] & maskB(t.W)
	}
	if v, ok := memo[t]; ok {
		return v
	}
	var r uint64
	b2u := func(b bool) uint64 {
		if b {
			return 1
		}
		return 0
	}
	switch t.Op {
	case OpNot:
		r = 1 - eval(t.A, env, memo)
	case OpAnd:
		r = eval(t.A, env, memo) & eval(t.B, env, memo)
	case OpOr:
		r = eval(t.A, env, memo) | eval(t.B, env, memo)
	case OpIte:
		if eval(t.A, env, memo) != 0 {
			r = eval(t.B, env, memo)
		} else {
			r = eval(t.C, env, memo)
		}
	case OpEq:
		r = b2u(eval(t.A, env, memo) == eval(t.B, env, memo))
	case OpBNot:
		r = ^eval(t.A, env, memo) & mask(t.W)
	case OpNeg:
		r = -eval(t.A, env, memo) & mask(t.W)
	case OpUlt:
		r = b2u(eval(t.A, env, memo) < eval(t.B, env, memo))
	case OpUle:
		r = b2u(eval(t.A, env, memo) <= eval(t.B, env, memo))
	case OpSlt:
		r = b2u(sext(eval(t.A, env, memo), t.A.W) < sext(eval(t.B, env, memo), t.A.W))
	case OpSle:
		r = b2u(sext(eval(t.A, env, memo), t.A.W) <= sext(eval(t.B, env, memo), t.A.W))
	case OpExtract:
		lo := uint8(t.Val & 0xff)
		r = (eval(t.A, env, memo) >> lo) & mask(t.W)
	case OpZext:
		r = eval(t.A, env, memo)
	case OpSext:
		r = uint64(sext(eval(t.A, env, memo), t.A.W)) & mask(t.W)
	case OpConcat:
		r = eval(t.A, env, memo)<<t.B.W | eval(t.B, env, memo)
	default:
		var c Ctx
		v, ok := c.binfold(t.Op, t.W, eval(t.A, env, memo), eval(t.B, env, memo))
		if !ok {
			panic("sym: eval of unknown op")
		}
		r = v
	}
	memo[t] = r
	return r
}

func maskB(w uint8) uint64 {
	if w == 0 {
		return 1
	}
	return mask(w)
}

// ---------------------------------------------------------------------------
// SMT-LIB2 printing

func sortOf(w uint8) string {
	if w == 0 {
		return "Bool"
	}
	return fmt.Sprintf("(_ BitVec %d)", w)
}

func constStr(t *Term) string {
	if t.W == 0 {
		if t.Val != 0 {
			return "true"
		}
		return "false"
	}
	if t.W%4 == 0 {
		return fmt.Sprintf("#x%0*x", int(t.W/4), t.Val)
	}
	return fmt.Sprintf("#b%0*b", int(t.W), t.Val)
}

// Vars appends (in first-occurrence order) the variables of t not yet in seen.
func Vars(t *Term, seen map[*Term]bool, out *[]*Term) {
	visited := map[*Term]bool{}
	var walk func(*Term)
	walk = func(t *Term) {
		if t == nil || t.nvars == 0 || visited[t] {
			return
		}
		visited[t] = true
		if t.Op == OpVar {
			if !seen[t] {
				seen[t] = true
				*out = append(*out, t)
			}
			return
		}
		walk(t.A)
		walk(t.B)
		walk(t.C)
	}
	walk(t)
}

// SMT renders t with let-bindings for shared non-leaf nodes.
func SMT(t *Term) string {
	// count references
	refs := map[*Term]int{}
	var order []*Term
	var count func(*Term)
	count = func(t *Term) {
		if t == nil || t.Op == OpConst || t.Op == OpVar {
			return
		}
		refs[t]++
		if refs[t] > 1 {
			return
		}
		count(t.A)
		count(t.B)
		count(t.C)
		order = append(order, t) // post-order
	}
	count(t)
	names := map[*Term]string{}
	var sb strings.Builder
	var pr func(*Term, bool) string
	pr = func(t *Term, top bool) string {
		switch t.Op {
		case OpConst:
			return constStr(t)
		case OpVar:
			return t.Name
		}
		if !top {
			if n, ok := names[t]; ok {
				return n
			}
		}
		switch t.Op {
		case OpExtract:
			return fmt.Sprintf("((_ extract %d %d) %s)", t.Val>>8, t.Val&0xff, pr(t.A, false))
		case OpZext:
			return fmt.Sprintf("((_ zero_extend %d) %s)", t.W-t.A.W, pr(t.A, false))
		case OpSext:
			return fmt.Sprintf("((_ sign_extend %d) %s)", t.W-t.A.W, pr(t.A, false))
		case OpNot, OpBNot, OpNeg:
			return "(" + opNames[t.Op] + " " + pr(t.A, false) + ")"
		case OpIte:
			return "(ite " + pr(t.A, false) + " " + pr(t.B, false) + " " + pr(t.C, false) + ")"
		default:
			return "(" + opNames[t.Op] + " " + pr(t.A, false) + " " + pr(t.B, false) + ")"
		}
	}
	nlets := 0
	for _, n := range order {
		if refs[n] > 1 && n != t {
			body := pr(n, true)
			name := fmt.Sprintf("?t%d", n.ID)
			sb.WriteString("(let ((" + name + " " + body + ")) ")
			names[n] = name
			nlets++
		}
	}
	sb.WriteString(pr(t, true))
	for i := 0; i < nlets; i++ {
		sb.WriteByte(')')
	}
	return sb.String()
}

func Decl(v *Term) string {
	return fmt.Sprintf("(declare-const %s %s)", v.Name, sortOf(v.W))
}

func (t *Term) String() string { return SMT(t) }
