#!/bin/sh
# The repository's own test suite, no build tags (the verification machinery
# needs no hooks in /repo: harnesses are injected by overlay at check time).
# TestServerAcceptErrorHandling is schedule-dependent in the untouched
# baseline (it races s.Close() against a permanent accept error), so a
# failing run is retried once.
export GOFLAGS=-mod=mod GOPROXY=off GOSUMDB=off GOTOOLCHAIN=local
cd /repo || exit 2
go test -vet=off -count=1 -timeout 25m ./... && exit 0
echo "retrying once"
go test -vet=off -count=1 -timeout 25m ./...
