package exec

import (
	"fmt"
	"go/types"
	"strconv"
	"strings"

	"verif/gosym/sym"
)

// A small re-implementation of fmt's formatting step for the verbs go-smtp and
// textproto use (%d %v %s %q %x %c %t %T with 0/- flags and width). Concrete
// arguments produce exactly what fmt would; symbolic strings are spliced in
// at the verb's position; symbolic integers go through itoaSym (forks on sign
// and digit count). Anything else ends the path as inconclusive or produces
// an opaque string (which is inconclusive only if inspected).

func init() {
	reg("fmt.Sprintf", func(ex *Exec, fr *frame, a []value) value {
		return ex.sprintf(fr, a[0], a[1].([]value))
	})
	reg("fmt.Errorf", func(ex *Exec, fr *frame, a []value) value {
		msg := ex.sprintf(fr, a[0], a[1].([]value))
		// %w support: wrap the first error operand
		var wrapped iface
		if fs, ok := a[0].(string); ok && strings.Contains(fs, "%w") {
			for _, x := range a[1].([]value) {
				if xi, ok := x.(iface); ok && xi.t != nil && ex.methodOf(xi.t, "Error") != nil {
					wrapped = xi
					break
				}
			}
		}
		return ex.newError(fr, msg, wrapped)
	})
	reg("fmt.Fprintf", func(ex *Exec, fr *frame, a []value) value {
		s := ex.sprintf(fr, a[1], a[2].([]value))
		return ex.writeTo(fr, a[0].(iface), s)
	})
	reg("fmt.Fprint", func(ex *Exec, fr *frame, a []value) value {
		s := ex.sprint(fr, a[1].([]value), false)
		return ex.writeTo(fr, a[0].(iface), s)
	})
	reg("fmt.Sprint", func(ex *Exec, fr *frame, a []value) value {
		return ex.sprint(fr, a[0].([]value), false)
	})
	reg("fmt.Sprintln", func(ex *Exec, fr *frame, a []value) value {
		return ex.sprint(fr, a[0].([]value), true)
	})
}

func (ex *Exec) writeTo(fr *frame, w iface, s value) value {
	if w.t == nil {
		ex.rtPanic("invalid memory address or nil pointer dereference")
	}
	m := ex.methodOf(w.t, "Write")
	if m == nil {
		panic("fmt.Fprintf: writer has no Write method")
	}
	o := ex.strOctets(s)
	buf := make([]value, len(o))
	copy(buf, o)
	return ex.call(fr, m, []value{w.v, buf})
}

// newError builds an *errors.errorString (or a wrapError-like value) by
// calling the interpreted errors.New.
func (ex *Exec) newError(fr *frame, msg value, wrapped iface) value {
	if wrapped.t != nil {
		if w := ex.prog.SSA.ImportedPackage("fmt"); w != nil {
			if t := w.Type("wrapError"); t != nil {
				st := zero(t.Type()).(structure)
				st[0] = msg
				st[1] = wrapped
				var cell value = st
				return iface{t: types.NewPointer(t.Type()), v: &cell}
			}
		}
	}
	errs := ex.prog.SSA.ImportedPackage("errors")
	return ex.callSSA(fr, errs.Func("New"), []value{msg}, nil)
}

func (ex *Exec) sprint(fr *frame, args []value, ln bool) value {
	var out []value
	prevString := false
	for i, a := range args {
		ai := a.(iface)
		isString := ai.t != nil && basicKind(ai.t).cls == clsString
		if i > 0 && (ln || (!isString && !prevString)) {
			out = append(out, uint64(' '))
		}
		s := ex.formatArg(fr, 'v', fmtFlags{}, ai)
		if op, ok := s.(opaque); ok {
			return op
		}
		out = append(out, ex.strOctets(s)...)
		prevString = isString
	}
	if ln {
		out = append(out, uint64('\n'))
	}
	return mkStr(out)
}

type fmtFlags struct {
	zero, minus, plus, sharp, space bool
	width                           int
	hasWidth                        bool
	prec                            int
	hasPrec                         bool
}

func (ex *Exec) sprintf(fr *frame, format value, args []value) value {
	// The format may be symbolic text (Client.Auth passes the command line as
	// the format). Octets are literals unless they can be '%': that is decided
	// by the solver (fork); after a '%' the flag/width/verb octets are
	// concretised (fork over their feasible values).
	fo := ex.strOctets(format)
	fb := make([]byte, len(fo))   // concrete view used by the parser below
	lit := make([]value, len(fo)) // what to emit for a literal position
	for i := 0; i < len(fo); i++ {
		o := fo[i]
		lit[i] = o
		if u, isC := o.(uint64); isC {
			fb[i] = byte(u)
			continue
		}
		if ex.branch(ex.eqv(nil, o, uint64('%'))) {
			fb[i] = '%'
			lit[i] = uint64('%')
			// concretise the verb syntax that follows
			j := i + 1
			for j < len(fo) {
				var b byte
				if u, isC := fo[j].(uint64); isC {
					b = byte(u)
				} else {
					b = byte(ex.concretize(fo[j], 256, "fmt verb syntax"))
				}
				fb[j] = b
				lit[j] = uint64(b)
				j++
				if !(b == '0' || b == '-' || b == '+' || b == '#' || b == ' ' || b == '.' || (b >= '1' && b <= '9')) {
					break
				}
			}
			i = j - 1
			continue
		}
		fb[i] = 'x' // any non-'%' stand-in: the parser only looks for '%'
	}
	f := string(fb)
	var out []value
	emit := func(s string) {
		for i := 0; i < len(s); i++ {
			out = append(out, uint64(s[i]))
		}
	}
	argi := 0
	for i := 0; i < len(f); {
		if f[i] != '%' {
			out = append(out, lit[i])
			i++
			continue
		}
		i++
		if i >= len(f) {
			emit("%!(NOVERB)")
			break
		}
		var fl fmtFlags
	flags:
		for i < len(f) {
			switch f[i] {
			case '0':
				fl.zero = true
			case '-':
				fl.minus = true
			case '+':
				fl.plus = true
			case '#':
				fl.sharp = true
			case ' ':
				fl.space = true
			default:
				break flags
			}
			i++
		}
		for i < len(f) && f[i] >= '0' && f[i] <= '9' {
			fl.width = fl.width*10 + int(f[i]-'0')
			fl.hasWidth = true
			i++
		}
		if i < len(f) && f[i] == '.' {
			i++
			fl.hasPrec = true
			for i < len(f) && f[i] >= '0' && f[i] <= '9' {
				fl.prec = fl.prec*10 + int(f[i]-'0')
				i++
			}
		}
		if i >= len(f) {
			emit("%!(NOVERB)")
			break
		}
		verb := f[i]
		i++
		if verb == '%' {
			out = append(out, uint64('%'))
			continue
		}
		if argi >= len(args) {
			emit("%!" + string(verb) + "(MISSING)")
			continue
		}
		arg := args[argi].(iface)
		argi++
		s := ex.formatArg(fr, verb, fl, arg)
		if op, ok := s.(opaque); ok {
			return op
		}
		o := ex.strOctets(s)
		if fl.hasWidth && len(o) < fl.width {
			pad := fl.width - len(o)
			padc := uint64(' ')
			if fl.zero && !fl.minus {
				padc = '0'
			}
			if fl.minus {
				out = append(out, o...)
				for k := 0; k < pad; k++ {
					out = append(out, uint64(' '))
				}
			} else {
				// zero padding goes after a sign
				if padc == '0' && len(o) > 0 {
					if u, ok := o[0].(uint64); ok && (u == '-' || u == '+') {
						out = append(out, o[0])
						o = o[1:]
					}
				}
				for k := 0; k < pad; k++ {
					out = append(out, padc)
				}
				out = append(out, o...)
			}
		} else {
			out = append(out, o...)
		}
	}
	if argi < len(args) {
		emit("%!(EXTRA ")
		for k := argi; k < len(args); k++ {
			if k > argi {
				emit(", ")
			}
			ai := args[k].(iface)
			if ai.t == nil {
				emit("<nil>")
			} else {
				emit(ai.t.String() + "=")
				s := ex.formatArg(fr, 'v', fmtFlags{}, ai)
				if op, ok := s.(opaque); ok {
					return op
				}
				out = append(out, ex.strOctets(s)...)
			}
		}
		emit(")")
	}
	return mkStr(out)
}

func (ex *Exec) formatArg(fr *frame, verb byte, fl fmtFlags, a iface) value {
	if a.t == nil {
		if verb == 'v' {
			return "<nil>"
		}
		return "%!" + string(verb) + "(<nil>)"
	}
	if verb == 'T' {
		return a.t.String()
	}
	// error / Stringer
	if verb == 'w' {
		// fmt.Errorf: %w formats its error operand like %v
		if m := ex.methodOf(a.t, "Error"); m != nil && m.Signature.Params().Len() == 0 {
			verb = 'v'
		}
	}
	switch verb {
	case 'v', 's', 'q', 'x', 'X':
		if m := ex.methodOf(a.t, "Error"); m != nil && m.Signature.Params().Len() == 0 {
			if p, ok := a.v.(*value); ok && p == nil {
				return "<nil>"
			}
			s := ex.call(fr, m, []value{a.v})
			return ex.formatString(verb, fl, s)
		}
		if m := ex.methodOf(a.t, "String"); m != nil && m.Signature.Params().Len() == 0 && m.Signature.Results().Len() == 1 {
			if p, ok := a.v.(*value); ok && p == nil {
				return "<nil>"
			}
			s := ex.call(fr, m, []value{a.v})
			return ex.formatString(verb, fl, s)
		}
	}
	return ex.formatPlain(fr, verb, fl, a.t, a.v, 0)
}

func (ex *Exec) formatString(verb byte, fl fmtFlags, s value) value {
	switch verb {
	case 'v', 's':
		return s
	case 'q':
		if cs, ok := s.(string); ok {
			return strconv.Quote(cs)
		}
		return opaque{"%q of symbolic text"}
	case 'x', 'X':
		if cs, ok := s.(string); ok {
			if verb == 'x' {
				return fmt.Sprintf("%x", cs)
			}
			return fmt.Sprintf("%X", cs)
		}
		return opaque{"%x of symbolic text"}
	}
	return opaque{"unsupported string verb %" + string(verb)}
}

func (ex *Exec) formatPlain(fr *frame, verb byte, fl fmtFlags, t types.Type, v value, depth int) value {
	k := basicKind(t)
	switch k.cls {
	case clsString:
		return ex.formatString(verb, fl, v)
	case clsBool:
		if b, ok := v.(bool); ok {
			return strconv.FormatBool(b)
		}
		if ex.branch(v) {
			return "true"
		}
		return "false"
	case clsInt:
		switch verb {
		case 'd', 'v':
			s := ex.itoa(v, k)
			if fl.plus {
				if cs, ok := s.(string); ok && !strings.HasPrefix(cs, "-") {
					return "+" + cs
				}
			}
			return s
		case 'x', 'X':
			u, ok := v.(uint64)
			if !ok {
				return opaque{"%x of symbolic integer"}
			}
			var s string
			if k.signed && sextW(u, k.w) < 0 {
				s = "-" + strconv.FormatUint(uint64(-sextW(u, k.w)), 16)
			} else {
				s = strconv.FormatUint(u, 16)
			}
			if verb == 'X' {
				s = strings.ToUpper(s)
			}
			return s
		case 'c':
			return ex.runeToString(ex.convInt(k, kind{32, true, clsInt}, v))
		case 'q':
			if u, ok := v.(uint64); ok {
				return strconv.QuoteRune(rune(uint32(u)))
			}
			return opaque{"%q of symbolic rune"}
		}
		return opaque{"unsupported integer verb %" + string(verb)}
	case clsFloat:
		if verb == 'v' {
			return strconv.FormatFloat(v.(float64), 'g', -1, 64)
		}
		return opaque{"float formatting"}
	}
	if depth > 3 {
		return opaque{"deep value formatting"}
	}
	switch ut := t.Underlying().(type) {
	case *types.Slice:
		sl, _ := v.([]value)
		if basicKind(ut.Elem()).w == 8 && basicKind(ut.Elem()).cls == clsInt && !basicKind(ut.Elem()).signed {
			switch verb {
			case 's':
				return mkStr(sl)
			case 'q', 'x', 'X':
				return ex.formatString(verb, fl, mkStr(sl))
			}
		}
		return ex.formatSeq(fr, verb, fl, ut.Elem(), sl, depth)
	case *types.Array:
		return ex.formatSeq(fr, verb, fl, ut.Elem(), []value(v.(array)), depth)
	case *types.Pointer:
		if p, ok := v.(*value); ok && p == nil {
			return "<nil>"
		}
		return opaque{"pointer formatting"}
	case *types.Interface:
		return ex.formatArg(fr, verb, fl, v.(iface))
	case *types.Struct:
		st := v.(structure)
		var out []value
		out = append(out, uint64('{'))
		for i := 0; i < ut.NumFields(); i++ {
			if i > 0 {
				out = append(out, uint64(' '))
			}
			var s value
			ft := ut.Field(i).Type()
			if _, isI := ft.Underlying().(*types.Interface); isI {
				s = ex.formatArg(fr, verb, fl, st[i].(iface))
			} else {
				s = ex.formatPlain(fr, verb, fl, ft, st[i], depth+1)
			}
			if op, ok := s.(opaque); ok {
				return op
			}
			out = append(out, ex.strOctets(s)...)
		}
		out = append(out, uint64('}'))
		return mkStr(out)
	}
	return opaque{"formatting of " + t.String()}
}

func (ex *Exec) formatSeq(fr *frame, verb byte, fl fmtFlags, et types.Type, sl []value, depth int) value {
	var out []value
	out = append(out, uint64('['))
	for i, e := range sl {
		if i > 0 {
			out = append(out, uint64(' '))
		}
		var s value
		if _, isI := et.Underlying().(*types.Interface); isI {
			s = ex.formatArg(fr, verb, fl, e.(iface))
		} else {
			s = ex.formatPlain(fr, verb, fl, et, e, depth+1)
		}
		if op, ok := s.(opaque); ok {
			return op
		}
		out = append(out, ex.strOctets(s)...)
	}
	out = append(out, uint64(']'))
	return mkStr(out)
}

// itoa renders an integer in decimal. Symbolic values fork on sign and on the
// number of digits; the digits themselves are division/remainder terms at the
// narrowest sufficient width.
func (ex *Exec) itoa(v value, k kind) value {
	if u, ok := v.(uint64); ok {
		if k.signed {
			return strconv.FormatInt(sextW(u, k.w), 10)
		}
		return strconv.FormatUint(u, 10)
	}
	c := ex.ctx
	t := v.(*sym.Term)
	neg := false
	mag := t
	if k.signed {
		if ex.branch(norm(c.Cmp(sym.OpSlt, t, c.BV(0, k.w)))) {
			neg = true
			mag = c.Neg(t)
		}
	}
	// digit count
	n := 1
	p := uint64(10)
	for n < 20 {
		if k.w < 64 && p > maskW(k.w) {
			break
		}
		if ex.branch(norm(c.Cmp(sym.OpUlt, mag, c.BV(p, k.w)))) {
			break
		}
		n++
		if n == 20 {
			break
		}
		p *= 10
	}
	// narrow
	w := k.w
	switch {
	case n <= 2 && w > 8:
		w = 8
	case n <= 4 && w > 16:
		w = 16
	case n <= 9 && w > 32:
		w = 32
	}
	m := c.Extract(mag, w-1, 0)
	out := make([]value, 0, n+1)
	if neg {
		out = append(out, uint64('-'))
	}
	pw := uint64(1)
	pows := make([]uint64, n)
	for i := 0; i < n; i++ {
		pows[i] = pw
		pw *= 10
	}
	for i := n - 1; i >= 0; i-- {
		d := m
		if pows[i] > 1 {
			d = c.Bin(sym.OpUDiv, m, c.BV(pows[i], w))
		}
		if i < n-1 {
			d = c.Bin(sym.OpURem, d, c.BV(10, w))
		}
		d8 := c.Extract(d, 7, 0)
		out = append(out, norm(c.Bin(sym.OpAdd, d8, c.BV('0', 8))))
	}
	return mkStr(out)
}
