package smtp

import (
	"bytes"
	"io"
)

// verifClient builds a Client over an in-memory connection that already holds
// the server's replies; greeting and EHLO are skipped by setting the state the
// way hello() leaves it, with the given capability map.
func verifClient(replies string, ext map[string]string) (*Client, *vconn) {
	vc := &vconn{in: []byte(replies), final: io.EOF}
	c := NewClient(vc)
	c.didGreet = true
	c.didHello = true
	c.ext = ext
	return c, vc
}

// verifExtMap: one extension under test is present or absent (symbolic), all
// the others are jointly present or jointly absent. This keeps the number of
// capability maps linear instead of 2^k while still separating every
// parameter from every other extension's advertisement.
func verifExtMap(names []string) (map[string]string, map[string]bool) {
	ext := map[string]string{}
	has := map[string]bool{}
	under := verifChoice(len(names))
	underOn := nondetBool()
	othersOn := nondetBool()
	for i, n := range names {
		on := othersOn
		if i == under {
			on = underOn
		}
		if on {
			ext[n] = ""
			has[n] = true
		}
	}
	return ext, has
}

// verifAffix: a valid token with up to two arbitrary octets glued to its start
// or its end (where trimming or case folding in a validity check would hide them).
func verifAffix(tok string) string {
	x := nondetString(2)
	if nondetBool() {
		return x + tok
	}
	return tok + x
}

// verifOneLineOrNothing: the octets written by one call are either none or
// exactly one CRLF-terminated line without any other CR or LF.
func verifOneLineOrNothing(out []byte, err error, prop string) bool {
	if len(out) == 0 {
		verifAssert(err != nil, prop+".nothing-written-means-local-error")
		return false
	}
	n := len(out)
	ok := n >= 2 && out[n-2] == '\r' && out[n-1] == '\n'
	for _, ch := range out[:n-2] {
		if ch == '\r' || ch == '\n' {
			ok = false
		}
	}
	verifAssert(ok, prop+".exactly-one-line")
	return ok
}

func verif_C15_mail() {
	L := verifBound(2, 3)
	ext, has := verifExtMap([]string{"8BITMIME", "SIZE", "REQUIRETLS", "SMTPUTF8", "DSN", "AUTH"})
	// exactly one argument is hostile (arbitrary octets) per run; the others
	// are benign. Arguments are processed independently by the client.
	hostile := verifChoice(5)
	from := "a@b"
	if hostile == 0 {
		from = nondetString(L)
	}
	var opts *MailOptions
	if nondetBool() {
		opts = &MailOptions{Size: 5}
		opts.RequireTLS = nondetBool()
		opts.UTF8 = nondetBool()
		opts.Return = DSNReturnFull
		opts.EnvelopeID = "id1"
		a := "x@y"
		opts.Auth = &a
		switch hostile {
		case 1:
			opts.Return = DSNReturn(nondetString(L))
		case 2:
			opts.EnvelopeID = nondetString(L)
		case 3:
			if nondetBool() {
				opts.Auth = nil
			} else {
				a = nondetString(L)
			}
		case 4:
			opts.Return = DSNReturn(verifAffix([]string{"FULL", "HDRS"}[verifChoice(2)]))
		}
	}
	c, vc := verifClient("250 2.0.0 ok\r\n", ext)
	err := c.Mail(from, opts)
	verifObserve("c15mail", from, vc.out, err == nil)
	if !verifOneLineOrNothing(vc.out, err, "C15") {
		if len(vc.out) == 0 {
			verifReach("C15.mail-local-error")
		}
		return
	}
	verifReach("C15.mail-line")
	line := vc.out
	verifAssert(!bytes.Contains(line, []byte(" BODY=")) || has["8BITMIME"], "C15.body-only-if-advertised")
	verifAssert(!bytes.Contains(line, []byte(" SIZE=")) || has["SIZE"], "C15.size-only-if-advertised")
	verifAssert(!bytes.Contains(line, []byte(" REQUIRETLS")) || has["REQUIRETLS"], "C15.requiretls-only-if-advertised")
	verifAssert(!bytes.Contains(line, []byte(" SMTPUTF8")) || has["SMTPUTF8"], "C15.smtputf8-only-if-advertised")
	verifAssert(!bytes.Contains(line, []byte(" RET=")) || has["DSN"], "C15.ret-only-if-advertised")
	verifAssert(!bytes.Contains(line, []byte(" ENVID=")) || has["DSN"], "C15.envid-only-if-advertised")
	verifAssert(!bytes.Contains(line, []byte(" AUTH=")) || has["AUTH"], "C15.auth-only-if-advertised")
	if opts != nil && opts.RequireTLS {
		verifAssert(has["REQUIRETLS"] && bytes.Contains(line, []byte(" REQUIRETLS")), "C15.requiretls-never-dropped")
	}
	if opts != nil && opts.UTF8 {
		verifAssert(has["SMTPUTF8"] && bytes.Contains(line, []byte(" SMTPUTF8")), "C15.smtputf8-never-dropped")
	}
}

func verif_C15_rcpt() {
	L := verifBound(2, 3)
	ext, has := verifExtMap([]string{"DSN", "SMTPUTF8", "RRVS"})
	hostile := verifChoice(6)
	to := "a@b"
	if hostile == 0 {
		to = nondetString(L)
	}
	var opts *RcptOptions
	if nondetBool() {
		opts = &RcptOptions{}
		opts.Notify = []DSNNotify{DSNNotifyFailure, DSNNotifyDelayed}
		opts.OriginalRecipient = "o@p"
		opts.OriginalRecipientType = DSNAddressTypeRFC822
		switch hostile {
		case 1:
			opts.Notify = []DSNNotify{DSNNotifyFailure, DSNNotify(nondetString(L))}
		case 2:
			opts.OriginalRecipient = nondetString(L)
			if nondetBool() {
				opts.OriginalRecipientType = DSNAddressTypeUTF8
			}
		case 3:
			opts.OriginalRecipientType = DSNAddressType(nondetString(L))
		case 4:
			// a VALID token with one arbitrary octet glued to its start or end
			opts.OriginalRecipientType = DSNAddressType(verifAffix([]string{"rfc822", "utf-8", "RFC822"}[verifChoice(3)]))
		case 5:
			opts.Notify = []DSNNotify{DSNNotify(verifAffix("NEVER"))}
		}
	}
	c, vc := verifClient("250 2.0.0 ok\r\n", ext)
	err := c.Rcpt(to, opts)
	verifObserve("c15rcpt", to, vc.out, err == nil)
	if !verifOneLineOrNothing(vc.out, err, "C15") {
		if len(vc.out) == 0 {
			verifReach("C15.rcpt-local-error")
		}
		return
	}
	verifReach("C15.rcpt-line")
	line := vc.out
	verifAssert(!bytes.Contains(line, []byte(" NOTIFY=")) || has["DSN"], "C15.notify-only-if-advertised")
	verifAssert(!bytes.Contains(line, []byte(" ORCPT=")) || has["DSN"], "C15.orcpt-only-if-advertised")
	verifAssert(!bytes.Contains(line, []byte(" RRVS=")) || has["RRVS"], "C15.rrvs-only-if-advertised")
}

func verif_C15_hello_verify() {
	L := verifBound(3, 4)
	arg := nondetString(L)
	c, vc := verifClient("250 2.0.0 ok\r\n", nil)
	var err error
	if nondetBool() {
		c.didHello = false
		vc.in = []byte("250 ok\r\n")
		err = c.Hello(arg)
		verifReach("C15.hello")
	} else {
		err = c.Verify(arg)
		verifReach("C15.verify")
	}
	verifObserve("c15hv", arg, vc.out, err == nil)
	verifOneLineOrNothing(vc.out, err, "C15")
	if err != nil && len(vc.out) == 0 {
		// a refused argument must leave no trace: the next call writes its own
		// greeting and command, one line each, none of them carrying the value
		verifReach("C15.refused-then-next-call")
		vc.in = append(vc.in, "250 ok\r\n250 ok\r\n250 ok\r\n"...)
		nerr := c.Noop()
		lines := verifSplitLines(vc.out)
		verifAssert(nerr == nil, "C15.call-after-refused-argument-works")
		for _, l := range lines {
			ok := l == "NOOP" || l == "EHLO localhost" || l == "HELO localhost"
			verifAssert(ok, "C15.refused-argument-leaves-no-trace")
		}
	}
}
