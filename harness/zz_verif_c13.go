package smtp

import (
	"errors"
	"io"
	"strconv"
	"strings"
)

var verifStatusText = "later"

func verifStatusErr(k int) error {
	switch k {
	case 1:
		return &SMTPError{Code: 450, EnhancedCode: EnhancedCode{4, 2, 0}, Message: verifStatusText}
	case 2:
		return &SMTPError{Code: 550, EnhancedCode: EnhancedCode{5, 1, 1}, Message: "no"}
	}
	return nil
}

func verifStatusCode(k int) int { return []int{250, 450, 550}[k] }

// verif_C13_lmtp: an LMTP transaction with an arbitrary recipient list over two
// addresses and a backend that issues an arbitrary script of SetStatus calls
// (before and after consuming the message, at most one per occurrence of a
// recipient), returns nil or an error, or panics.
// Oracle: exactly one final reply per accepted RCPT, in RCPT order, each
// naming its recipient and carrying the k-th status set for that address for
// its k-th occurrence, else the return value (421 after a panic). The
// scheduler explores pre-emptions of the delivery goroutine; a deadlock or a
// leaked goroutine is a violation.
func verif_C13_lmtp() { verifC13(2, verifBound(1, 2)) }

// three recipients, one pre-emption (thorough tier only)
func verif_C13_lmtp3_thorough() { verifC13(3, 1) }

func verifC13(maxRcpt, preempt int) {
	verifPreemptBound(preempt)
	// the text of the 450 status carries one arbitrary printable octet
	tb := nondetByte()
	assume(tb > ' ' && tb < 0x7f)
	verifStatusText = "full" + string([]byte{tb}) + "now"
	n := nondetInt(1, maxRcpt)
	addrs := []string{"a@v", "b@v"}
	rcpts := make([]int, n)
	for i := range rcpts {
		rcpts[i] = verifChoice(2)
	}
	perRcpt := nondetBool()
	bdat := nondetBool()
	type call struct {
		addr, st int
		after    bool
	}
	var script []call
	ret := verifChoice(3)
	doPanic := false
	if perRcpt {
		m := nondetInt(0, n)
		for i := 0; i < m; i++ {
			script = append(script, call{verifChoice(2), verifChoice(3), nondetBool()})
		}
		doPanic = nondetBool()
	}
	early := nondetBool() // backend returns without reading the message
	// (returning success without consuming the message breaks the Session
	// contract "r must be consumed before Data returns"; failing early is legal)
	assume(!early || ret != 0 || doPanic)
	be := &vbackend{lmtpSession: perRcpt}
	// what the reference expects: simulate the collector's contract
	count := []int{0, 0}
	for _, r := range rcpts {
		count[r]++
	}
	set := [][]int{nil, nil}
	panicked := false
	simulate := func(c call) {
		if panicked {
			return
		}
		// a call for an unlisted recipient or one call too many breaks the
		// StatusCollector contract ("once per recipient"); the property ranges
		// over subsets and orders of the permitted calls only
		assume(count[c.addr] > 0 && len(set[c.addr]) < count[c.addr])
		set[c.addr] = append(set[c.addr], c.st)
	}
	for _, c := range script {
		if !c.after {
			simulate(c)
		}
	}
	if !early {
		for _, c := range script {
			if c.after {
				simulate(c)
			}
		}
	}
	if doPanic {
		panicked = true
	}
	be.lmtpFn = func(_ *vsession, r io.Reader, st StatusCollector) error {
		for _, c := range script {
			if !c.after {
				st.SetStatus(addrs[c.addr], verifStatusErr(c.st))
			}
		}
		if !early {
			verifReadAll(r, 4)
			for _, c := range script {
				if c.after {
					st.SetStatus(addrs[c.addr], verifStatusErr(c.st))
				}
			}
		}
		if doPanic {
			panic("verif: injected LMTPData panic")
		}
		return verifStatusErr(ret)
	}
	be.dataFn = func(_ *vsession, r io.Reader) error {
		if !early {
			verifReadAll(r, 4)
		}
		return verifStatusErr(ret)
	}
	s, _ := verifServer(be)
	s.LMTP = true
	in := "LHLO c\r\nMAIL FROM:<s@v>\r\n"
	for _, r := range rcpts {
		in += "RCPT TO:<" + addrs[r] + ">\r\n"
	}
	if bdat {
		in += "BDAT 3 LAST\r\nx\r\n"
	} else {
		in += "DATA\r\nx\r\n.\r\n"
	}
	in += "NOOP\r\n"
	vc, _, _ := verifServe(s, []byte(in), io.EOF)
	reps, wf := verifParseReplies(vc.out)
	verifAssert(wf, "C13.replies-wellformed")
	if !wf {
		return
	}
	base := 3 + n
	if !bdat {
		base++ // 354
	}
	finals := reps[base:]
	closedByPanic := panicked && perRcpt
	nfinal := len(finals)
	if !closedByPanic && nfinal > 0 {
		nfinal-- // the NOOP reply
	}
	verifObserve("c13", n, perRcpt, bdat, len(script), ret, doPanic, early, len(finals))
	verifAssert(nfinal == n, "C13.one-reply-per-accepted-recipient")
	if nfinal != n {
		return
	}
	used := []int{0, 0}
	for i, r := range rcpts {
		want := verifStatusCode(ret)
		if perRcpt {
			if used[r] < len(set[r]) {
				want = verifStatusCode(set[r][used[r]])
			} else if panicked {
				want = 421
			}
			used[r]++
		}
		f := finals[i]
		prefix := "<" + addrs[r] + "> "
		txt := f.lines[len(f.lines)-1]
		named := len(txt) >= 6+len(prefix) && txt[6:6+len(prefix)] == prefix
		verifAssert(named, "C13.reply-names-its-recipient")
		verifAssert(f.code == want, "C13.reply-carries-own-status")
		if want == 450 && named {
			verifAssert(txt[6+len(prefix):] == verifStatusText, "C13.reply-carries-own-status-text")
		}
	}
	if !closedByPanic {
		verifReach("C13.connection-continues")
		verifAssert(finals[n].code == 250, "C13.command-mode-after-delivery")
	} else {
		verifReach("C13.closed-after-panic")
	}
	verifAssert(verifGoroutinesAlive() == 0, "C13.no-goroutine-left")
	_ = errors.New
	_ = strconv.Itoa
}

// verif_C13_isolation: "correctly attributed", across messages, with the real
// code as its own oracle. On one LMTP connection with a per-recipient backend
// two earlier messages (recipient lists with and without a repeated address,
// statuses set explicitly or left to the return value) are followed by a third
// one whose recipient list, SetStatus script and return value are arbitrary;
// its replies must be exactly those the same message gets on a fresh
// connection: no status of an earlier message is ever reported for a later one.
func verif_C13_isolation() {
	verifPreemptBound(0)
	verifSchedForkBound(0)
	type msg struct {
		rcpts []string
		sets  []int // per SetStatus call, in recipient order: 0 ok, 1 450, 2 550, 3 no call
		ret   int
	}
	history := []msg{
		{[]string{"b@v", "b@v"}, []int{3, 3}, 0},
		{[]string{"b@v", "b@v"}, []int{0, 1}, 0},
		{[]string{"b@v", "c@v"}, []int{3, 3}, 2},
		{[]string{"b@v"}, []int{3}, 0},
		{[]string{"b@v"}, []int{1}, 0},
		{[]string{"b@v", "c@v", "b@v"}, []int{2, 3, 3}, 1},
	}
	h1 := history[verifChoice(len(history))]
	h2 := history[verifChoice(len(history))]
	var last msg
	last.rcpts = [][]string{{"b@v"}, {"b@v", "b@v"}, {"b@v", "c@v"}, {"c@v", "b@v"}}[verifChoice(4)]
	for range last.rcpts {
		last.sets = append(last.sets, verifChoice(4))
	}
	last.ret = verifChoice(3)
	bdat := nondetBool()
	run := func(msgs []msg) []byte {
		be := &vbackend{lmtpSession: true}
		k := 0
		be.lmtpFn = func(_ *vsession, r io.Reader, st StatusCollector) error {
			m := msgs[k]
			k++
			verifReadAll(r, 4)
			for i, a := range m.rcpts {
				if m.sets[i] != 3 {
					st.SetStatus(a, verifStatusErr(m.sets[i]))
				}
			}
			return verifStatusErr(m.ret)
		}
		s, _ := verifServer(be)
		s.LMTP = true
		in := "LHLO c\r\n"
		mark := 0
		for i, m := range msgs {
			if i == len(msgs)-1 {
				mark = len(in)
			}
			in += "MAIL FROM:<s@v>\r\n"
			for _, a := range m.rcpts {
				in += "RCPT TO:<" + a + ">\r\n"
			}
			if bdat {
				in += "BDAT 2 LAST\r\nhi"
			} else {
				in += "DATA\r\nhi\r\n.\r\n"
			}
		}
		vc := &vconn{in: []byte(in), final: io.EOF, cuts: []int{mark}}
		omark := 0
		c := newConn(vc, s)
		// note the output position when the last message starts
		vc.onRead = func(pos int) {
			if pos == mark {
				omark = len(vc.out)
			}
		}
		s.handleConn(c)
		verifSettle()
		return vc.out[omark:]
	}
	verifStatusText = "later"
	a := run([]msg{h1, h2, last})
	b := run([]msg{last})
	ra, wfa := verifParseReplies(a)
	rb, wfb := verifParseReplies(b)
	verifObserve("c13iso", bdat, len(last.rcpts), last.ret, wfa, wfb, len(ra), len(rb))
	// MAIL, one per RCPT, 354 for DATA, one final reply per recipient
	wantN := 1 + 2*len(last.rcpts)
	if !bdat {
		wantN++
	}
	verifAssert(wfa && wfb && len(rb) == wantN, "C13.isolation-fresh-reply-count")
	verifAssert(string(a) == string(b), "C13.isolation-later-message-gets-its-own-statuses")
	verifReach("C13.isolation-end")
}

// verif_C13_smtp_equiv: an LMTP server (backend with or without per-recipient
// support, which here leaves every status to its return value) must treat a
// message for one or two recipients exactly as the SMTP server does: the same
// callbacks, the same octets for the backend, and a final response of one reply
// per recipient, in order, each with the SMTP reply's code and enhanced code and
// the SMTP text prefixed with that recipient - for DATA and BDAT, a backend that
// accepts, refuses with an SMTPError of arbitrary code 400..599 or fails with a
// plain error, after reading everything or (when it fails) two octets, and a
// size limit around the message size.
func verif_C13_smtp_equiv() {
	verifPreemptBound(0)
	verifSchedForkBound(0)
	bdat := nondetBool()
	perRcpt := nondetBool()
	readAll := nondetBool()
	verdict := verifChoice(3)
	code := nondetInt(400, 599)
	nr := nondetInt(1, 2)
	// (accepting a message without having read it breaks the Session contract)
	assume(readAll || verdict != 0)
	msg := "hello\r\n"
	limit := []int64{0, int64(len(msg)) - 1, int64(len(msg))}[verifChoice(3)]
	rcpts := []string{"r@v", "q@v"}[:nr]
	type obs struct {
		final []vreply
		ok    bool
		kinds []string
		body  []byte
	}
	run := func(lmtp bool) obs {
		var o obs
		be := &vbackend{lmtpSession: lmtp && perRcpt}
		consume := func(r io.Reader) error {
			var e error
			if readAll {
				o.body, e = verifReadAll(r, 3)
			} else {
				buf := make([]byte, 2)
				n, e2 := r.Read(buf)
				o.body, e = buf[:n], e2
			}
			if e != nil && e != io.EOF {
				return e
			}
			switch verdict {
			case 1:
				return &SMTPError{Code: code, EnhancedCode: EnhancedCode{code / 100, 9, 9}, Message: "refused"}
			case 2:
				return errors.New("backend down")
			}
			return nil
		}
		be.dataFn = func(_ *vsession, r io.Reader) error { return consume(r) }
		be.lmtpFn = func(_ *vsession, r io.Reader, st StatusCollector) error { return consume(r) }
		s, _ := verifServer(be)
		s.LMTP = lmtp
		s.MaxMessageBytes = limit
		in := "EHLO c\r\n"
		if lmtp {
			in = "LHLO c\r\n"
		}
		in += "MAIL FROM:<s@v>\r\n"
		for _, a := range rcpts {
			in += "RCPT TO:<" + a + ">\r\n"
		}
		idx := 3 + nr
		if bdat {
			in += "BDAT " + strconv.Itoa(len(msg)) + " LAST\r\n" + msg
		} else {
			in += "DATA\r\n" + msg + ".\r\n"
			idx++
		}
		in += "NOOP\r\n"
		nfinal := 1
		if lmtp {
			nfinal = nr
		}
		vc, _, _ := verifServe(s, []byte(in), io.EOF)
		reps, wf := verifParseReplies(vc.out)
		if wf && len(reps) == idx+nfinal+1 && reps[idx+nfinal].code == 250 {
			o.final, o.ok = reps[idx:idx+nfinal], true
		}
		for _, e := range be.trace {
			k := e.kind
			if k == "LMTPData" {
				k = "Data"
			}
			o.kinds = append(o.kinds, k)
		}
		return o
	}
	a := run(false)
	b := run(true)
	verifObserve("c13eq", bdat, perRcpt, readAll, verdict, code, nr, limit, a.ok, b.ok)
	verifAssert(a.ok, "C13.equiv-smtp-one-final-reply-then-command-mode")
	verifAssert(b.ok, "C13.equiv-lmtp-one-reply-per-recipient-then-command-mode")
	if !a.ok || !b.ok {
		return
	}
	sm := a.final[0]
	st := ""
	if len(sm.lines) >= 1 {
		st = sm.lines[0]
		if sm.hasEn {
			st = st[strings.IndexByte(st, ' ')+1:]
		}
	}
	for i, r := range b.final {
		verifAssert(r.code == sm.code && r.hasEn == sm.hasEn && r.enh == sm.enh, "C13.equiv-same-code-as-smtp")
		verifAssert(len(r.lines) == len(sm.lines) && len(r.lines) == 1, "C13.equiv-same-shape-as-smtp")
		if len(r.lines) == 1 {
			bt := r.lines[0]
			if r.hasEn {
				bt = bt[strings.IndexByte(bt, ' ')+1:]
			}
			verifAssert(bt == "<"+rcpts[i]+"> "+st, "C13.equiv-text-is-smtp-text-with-recipient")
		}
	}
	verifAssert(string(a.body) == string(b.body), "C13.equiv-same-octets")
	verifAssert(len(a.kinds) == len(b.kinds), "C13.equiv-same-callbacks")
	if len(a.kinds) == len(b.kinds) {
		for i := range a.kinds {
			verifAssert(a.kinds[i] == b.kinds[i], "C13.equiv-same-callbacks")
		}
	}
	verifReach("C13.equiv-end")
}

// verifLMTPCase: two accepted recipients that differ only in letter case (of the
// local part, or of the domain), or not at all related: they are two recipients.
// A per-recipient backend reports each one's verdict under the spelling it was
// given, in RCPT order or in reverse, both explicitly or only the refusals (the
// rest through its return value); DATA and BDAT LAST. Each reply names its own
// recipient and carries that recipient's verdict, and nothing deadlocks.
func verifLMTPCase(prop string) {
	verifPreemptBound(1)
	pair := [][]string{{"Box@v", "box@v"}, {"u@Example.ORG", "u@example.org"}, {"a@v", "b@v"}}[verifChoice(3)]
	bdat := nondetBool()
	reverse := nondetBool()
	onlyRefusals := nondetBool()
	ok := []bool{nondetBool(), nondetBool()}
	be := &vbackend{lmtpSession: true}
	be.lmtpFn = func(_ *vsession, r io.Reader, st StatusCollector) error {
		verifReadAll(r, 4)
		order := []int{0, 1}
		if reverse {
			order = []int{1, 0}
		}
		for _, i := range order {
			if ok[i] {
				if !onlyRefusals {
					st.SetStatus(pair[i], nil)
				}
			} else {
				st.SetStatus(pair[i], verifStatusErr(2))
			}
		}
		return nil
	}
	s, lg := verifServer(be)
	s.LMTP = true
	in := "LHLO c\r\nMAIL FROM:<s@v>\r\nRCPT TO:<" + pair[0] + ">\r\nRCPT TO:<" + pair[1] + ">\r\n"
	idx := 6 // greeting, LHLO, MAIL, RCPT, RCPT, 354
	if bdat {
		in += "BDAT 2 LAST\r\nhi"
		idx = 5
	} else {
		in += "DATA\r\nhi\r\n.\r\n"
	}
	in += "NOOP\r\n"
	vc, _, _ := verifServe(s, []byte(in), io.EOF)
	reps, wf := verifParseReplies(vc.out)
	verifObserve(prop+".lmtpcase", pair[0], bdat, reverse, onlyRefusals, ok[0], ok[1])
	verifAssert(wf && lg.lines == 0 && verifPanicEvents() == 0, prop+".lmtp-case-clean")
	verifAssert(wf && len(reps) == idx+3 && reps[idx+2].code == 250, prop+".lmtp-case-one-reply-per-recipient")
	if wf && len(reps) == idx+3 {
		for i := 0; i < 2; i++ {
			r := reps[idx+i]
			want := 250
			if !ok[i] {
				want = 550
			}
			verifAssert(r.code == want, prop+".lmtp-case-own-verdict")
			verifAssert(len(r.lines) == 1 && strings.Contains(r.lines[0], "<"+pair[i]+">"), prop+".lmtp-case-names-own-recipient")
		}
	}
	verifAssert(verifGoroutinesAlive() == 0, prop+".lmtp-case-no-goroutine-left")
	verifReach(prop + ".lmtp-case-end")
}

func verif_C13_lmtp_case() { verifLMTPCase("C13") }
