#!/usr/bin/env python3
import json, jsonschema, glob, sys
m=json.load(open('/verif/MANIFEST.json')); s=json.load(open('/root/.vp/MANIFEST.schema.json'))
jsonschema.validate(m,s); print("manifest valid")
es=json.load(open('/root/.vp/EVIDENCE.schema.json'))
for f in sorted(glob.glob('/verif/evidence/*.json')):
    e=json.load(open(f)); jsonschema.validate(e,es); print("evidence valid", f)
