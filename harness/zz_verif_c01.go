package smtp

import (
	"bufio"
	"bytes"
	"io"
)

// ---------------------------------------------------------------------------
// Reference for C01/C02/C07: RFC 5321 §4.5.2 transparency as the property
// states it. Lines are delimited by CRLF only. At a line start (offset 0 or
// right after CRLF) a '.' followed by CRLF ends the message; any other '.'
// at a line start is dropped; every other octet is copied.
// Returns the body, the offset just past the end marker, and whether a
// marker exists in s.
func refUnstuff(s []byte) (body []byte, end int, ok bool) {
	body = []byte{}
	bol := true
	for i := 0; i < len(s); {
		c := s[i]
		if bol && c == '.' {
			if i+2 < len(s) && s[i+1] == '\r' && s[i+2] == '\n' {
				return body, i + 3, true
			}
			if i+2 >= len(s) {
				// the stream ends before the octets after the dot are known:
				// could still become a marker; stop here (no marker in s).
				if i+1 >= len(s) || s[i+1] == '\r' {
					return body, len(s), false
				}
			}
			bol = false
			i++
			continue
		}
		body = append(body, c)
		bol = c == '\n' && i > 0 && s[i-1] == '\r'
		i++
	}
	return body, len(s), false
}

// verifSrc is an io.Reader over a fixed octet vector that returns at most seg
// octets per Read (network segmentation) and then a final error.
type verifSrc struct {
	data  []byte
	pos   int
	seg   int
	final error
	reads int
	// finalWithData: the Read that delivers the last octets returns the final
	// error together with them
	finalWithData bool
}

func (s *verifSrc) Read(b []byte) (int, error) {
	s.reads++
	if s.pos >= len(s.data) {
		return 0, s.final
	}
	n := len(s.data) - s.pos
	if n > len(b) {
		n = len(b)
	}
	if s.seg > 0 && n > s.seg {
		n = s.seg
	}
	copy(b, s.data[s.pos:s.pos+n])
	s.pos += n
	if s.finalWithData && s.pos >= len(s.data) {
		return n, s.final
	}
	return n, nil
}

func verifIsPrefix(p, s []byte) bool {
	return len(p) <= len(s) && bytes.Equal(p, s[:len(p)])
}

// verif_C01_stream: whole streams of up to L arbitrary octets followed by
// end of input, read through dataReader.Read with every combination of segment size
// {unsegmented, 1, 2} and buffer size {1, 2, 3, L+2}. Differential against refUnstuff.
func verif_C01_stream() {
	L := verifBound(6, 9)
	stream := nondetBytes(L)
	// network segmentation and the backend's buffer size vary independently
	// (a small buffer over a fully buffered stream is what a block-reading
	// backend behind a fast network sees)
	seg := verifChoice(3)
	bufsz := []int{1, 2, 3, L + 2}[verifChoice(4)]
	src := &verifSrc{data: stream, seg: seg, final: io.EOF, finalWithData: nondetBool()}
	br := bufio.NewReader(src)
	dr := &dataReader{r: br}
	got := []byte{}
	var err error
	for it := 0; it < 2*L+6 && err == nil; it++ {
		b := make([]byte, bufsz)
		n, e := dr.Read(b)
		verifAssert(n >= 0 && n <= len(b), "C01.read-count-in-range")
		got = append(got, b[:n]...)
		err = e
	}
	verifAssert(err != nil, "C01.reader-terminates")
	body, end, ok := refUnstuff(stream)
	verifObserve("stream", stream, got, ok, end)
	if ok {
		verifReach("C01.marker")
		verifAssert(err == io.EOF, "C01.eof-at-marker")
		verifAssert(bytes.Equal(got, body), "C01.body-exact")
		consumed := src.pos - br.Buffered()
		verifAssert(consumed == end, "C01.consumed-through-marker")
	} else {
		verifReach("C01.nomarker")
		verifAssert(err == io.ErrUnexpectedEOF, "C01.no-eof-without-marker")
		verifAssert(verifIsPrefix(got, body), "C01.partial-is-prefix")
	}
}

// verif_C01_server: the same differential through the whole server. A DATA
// message of up to 3 arbitrary octets plus the end marker arrives with one cut
// at an ARBITRARY offset; the last octets arrive alone or together with the end
// of the connection (a Read returning n > 0 and io.EOF, as TLS connections do);
// the backend reads with a buffer of 1, 3 or 8 octets. It must read exactly
// refUnstuff's body and then EOF, in SMTP and LMTP mode.
func verif_C01_server() {
	L := verifBound(3, 4)
	msg := nondetBytes(L)
	stream := append(append([]byte{}, msg...), "\r\n.\r\n"...)
	body, end, ok := refUnstuff(stream)
	assume(ok && end == len(stream)) // no earlier end marker inside the arbitrary octets
	lmtp := nondetBool()
	bufsz := []int{1, 3, 8}[verifChoice(3)]
	var got []byte
	var rerr error
	be := &vbackend{}
	be.dataFn = func(_ *vsession, r io.Reader) error {
		got, rerr = verifReadAll(r, bufsz)
		if rerr == io.EOF {
			return nil
		}
		return rerr
	}
	s, _ := verifServer(be)
	s.LMTP = lmtp
	hello := "EHLO c\r\n"
	if lmtp {
		hello = "LHLO c\r\n"
	}
	in := append([]byte(hello+"MAIL FROM:<s@v>\r\nRCPT TO:<r@v>\r\nDATA\r\n"), stream...)
	vc := &vconn{in: in, final: io.EOF}
	vc.cuts = []int{nondetInt(1, len(in)-1)}
	vc.finalWithData = nondetBool()
	c := newConn(vc, s)
	s.handleConn(c)
	verifSettle()
	verifObserve("c01srv", msg, lmtp, bufsz, vc.finalWithData, len(got), rerr == io.EOF)
	verifAssert(be.count("Data") == 1, "C01.server-data-called")
	verifAssert(rerr == io.EOF, "C01.server-complete-message-ends-with-eof")
	verifAssert(bytes.Equal(got, body), "C01.server-body-exact")
	reps, wf := verifParseReplies(vc.out)
	verifAssert(wf && len(reps) == 6 && reps[5].code == 250, "C01.server-message-accepted")
	verifReach("C01.server-end")
}
func verif_C01_two_messages() { verifTwoMessages("C01") }

// verif_C01_limited: "does not depend on how the stream is split into network
// segments" with a line-length limit in force. MaxLineLength is 24 - the longest
// command line of the prelude (RCPT TO:<r@v> CRLF, 14 octets) fits, and so does
// every line of the message - and the message has three lines of 9..11 octets
// (CRLF included; one octet of each arbitrary), so that any two ADJACENT lines
// together exceed what one line may have. The stream is cut once at an ARBITRARY
// offset - between a CR and its LF included - or delivered octet by octet.
// The backend reads the body exactly and the message is accepted.
func verif_C01_limited() {
	x, y, z := nondetByte(), nondetByte(), nondetByte()
	for _, c := range []byte{x, y, z} {
		assume(c != '\r' && c != '\n' && c != '.')
	}
	lines := "abcdefg" + string([]byte{x}) + "\r\n" + "hij" + string([]byte{y}) + "klmnopq\r\n" + string([]byte{z}) + "stuvwx\r\n"
	stream := lines + ".\r\n"
	var got []byte
	var rerr error
	be := &vbackend{}
	be.dataFn = func(_ *vsession, r io.Reader) error {
		got, rerr = verifReadAll(r, 5)
		if rerr == io.EOF {
			return nil
		}
		return rerr
	}
	s, lg := verifServer(be)
	s.MaxLineLength = 24
	head := "EHLO c\r\nMAIL FROM:<s@v>\r\nRCPT TO:<r@v>\r\nDATA\r\n"
	in := []byte(head + stream)
	vc := &vconn{in: in, final: io.EOF}
	if nondetBool() {
		vc.seg = 1
	} else {
		vc.cuts = []int{nondetInt(len(head), len(in)-1)}
	}
	c := newConn(vc, s)
	s.handleConn(c)
	verifSettle()
	reps, wf := verifParseReplies(vc.out)
	verifObserve("c01lim", x, y, z, vc.seg, len(got), rerr == io.EOF, len(reps))
	verifAssert(rerr == io.EOF && string(got) == lines, "C01.limited-body-exact-whatever-the-segmentation")
	verifAssert(wf && len(reps) == 6 && reps[5].code == 250 && lg.lines == 0, "C01.limited-message-accepted")
	verifReach("C01.limited-end")
}
