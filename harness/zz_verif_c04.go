package smtp

import (
	"errors"
	"github.com/emersion/go-sasl"
	"io"
	"strconv"
	"time"
)

func verif_C04_line() { verifLineHarness("C04") }

// verif_C04_stale: a chunked transfer is abandoned (RSET, a new MAIL, a new
// EHLO) and a second message is sent with BDAT LAST on the same connection.
// The delivery goroutine of the abandoned transfer finishes at a point chosen
// by the scheduler. The final reply of the second message must be that
// message's own verdict.
func verif_C04_stale() {
	verifPreemptBound(verifBound(1, 2))
	how := verifChoice(3)
	second := nondetBool() // verdict of the second message
	ncall := 0
	var got2 []byte
	// harness-controlled event order: with gated set, the aborted delivery
	// does not return before the second delivery has started (a slow backend)
	gated := nondetBool()
	gate := make(chan struct{})
	be := &vbackend{}
	be.dataFn = func(_ *vsession, r io.Reader) error {
		ncall++
		me := ncall
		if me == 2 && gated {
			close(gate)
			verifSettle()
		}
		b, rerr := verifReadAll(r, 4)
		if me == 1 {
			if gated && how != 2 {
				<-gate
			}
			if rerr == io.EOF {
				return nil
			}
			return rerr
		}
		got2 = b
		if rerr != io.EOF {
			return rerr
		}
		if second {
			return nil
		}
		return &SMTPError{Code: 550, EnhancedCode: EnhancedCode{5, 6, 0}, Message: "second rejected"}
	}
	s, _ := verifServer(be)
	in := "EHLO c\r\nMAIL FROM:<one@v>\r\nRCPT TO:<r@v>\r\nBDAT 2\r\nab"
	n := 5
	switch how {
	case 0:
		in += "RSET\r\n"
		n++
	case 1:
		in += "EHLO again\r\n"
		n++
	case 2:
		in += "QUIT\r\n"
	}
	if how != 2 {
		in += "MAIL FROM:<two@v>\r\nRCPT TO:<r@v>\r\nBDAT 3 LAST\r\nxyz"
	}
	vc, _, _ := verifServe(s, []byte(in), io.EOF)
	reps, wf := verifParseReplies(vc.out)
	verifAssert(wf, "C04.stale-replies-wellformed")
	if !wf {
		return
	}
	verifObserve("c04s", how, second, len(reps), ncall)
	if how == 2 {
		verifReach("C04.stale-quit")
		verifAssert(len(reps) == n+1 && reps[n].code == 221, "C04.quit-after-chunk")
	} else {
		verifReach("C04.stale-second-message")
		verifAssert(len(reps) == n+3, "C04.stale-one-reply-per-command")
		if len(reps) == n+3 {
			final := reps[n+2]
			if second {
				verifAssert(final.code == 250, "C04.final-reply-positive-iff-this-message-accepted")
			} else {
				verifAssert(final.code == 550 && final.lines[0] == "5.6.0 second rejected", "C04.negative-reply-carries-own-error")
			}
			verifAssert(string(got2) == "xyz", "C04.second-message-octets")
		}
	}
	verifAssert(verifGoroutinesAlive() == 0, "C04.stale-no-goroutine-left")
}

// verif_C04_errors: short histories in which the backend fails its callbacks
// with errors of every shape (SMTPError 4xx/5xx with and without an enhanced
// code, explicitly absent enhanced code, plain error). Every reply must be
// well-formed and - apart from greeting, EHLO and 3xx - carry an enhanced
// status code whose class equals the class of the reply code (a backend that
// explicitly opts out with NoEnhancedCode is the one permitted exception).
func verif_C04_errors() {
	shapes := func() error {
		switch verifChoice(6) {
		case 1:
			return &SMTPError{Code: 550, Message: "no"}
		case 2:
			return &SMTPError{Code: 451, Message: "later"}
		case 3:
			return &SMTPError{Code: 552, EnhancedCode: EnhancedCode{5, 3, 4}, Message: "big"}
		case 4:
			return errors.New("plain failure")
		case 5:
			return &SMTPError{Code: 521, EnhancedCode: NoEnhancedCode, Message: "opt out"}
		}
		return nil
	}
	lmtp := nondetBool()
	be := &vbackend{lmtpSession: lmtp && nondetBool()}
	optedOut := false
	wrap := func() error {
		e := shapes()
		if se, ok := e.(*SMTPError); ok && se.EnhancedCode == NoEnhancedCode {
			optedOut = true
		}
		return e
	}
	which := verifChoice(4)
	switch which {
	case 0:
		be.newSessionErr = wrap()
	case 1:
		e := wrap()
		be.mailErr = func(string) error { return e }
	case 2:
		e := wrap()
		be.rcptErr = func(string) error { return e }
	case 3:
		e := wrap()
		be.dataFn = func(_ *vsession, r io.Reader) error { verifReadAll(r, 8); return e }
		be.lmtpFn = func(_ *vsession, r io.Reader, _ StatusCollector) error { verifReadAll(r, 8); return e }
	}
	s, _ := verifServer(be)
	s.LMTP = lmtp
	hello := "EHLO c\r\n"
	if lmtp {
		hello = "LHLO c\r\n"
	}
	tail := "DATA\r\nx\r\n.\r\n"
	if nondetBool() {
		tail = "BDAT 1 LAST\r\nx"
	}
	in := hello + "MAIL FROM:<a@v>\r\nRCPT TO:<b@v>\r\n" + tail + "NOOP\r\n"
	vc, _, _ := verifServe(s, []byte(in), io.EOF)
	reps, wf := verifParseReplies(vc.out)
	verifObserve("c04e", which, lmtp, wf, len(reps))
	verifAssert(wf && len(reps) >= 5, "C04.errors-replies-wellformed")
	if !wf {
		return
	}
	for i, r := range reps {
		if i == 0 || r.code/100 == 3 || (r.code == 250 && len(r.lines) > 1) {
			continue
		}
		if optedOut && !r.hasEn {
			continue
		}
		verifAssert(r.hasEn && r.enh[0] == r.code/100, "C04.enhanced-code-class-matches-reply-code")
	}
	verifAssert(reps[len(reps)-1].code == 250, "C04.errors-command-mode-after")
	verifReach("C04.errors-end")
}

// verif_C04_pipeline: one conversation (DATA under a size limit around the
// message size, then BDAT, then NOOP and QUIT) sent fully pipelined in one
// segment, octet by octet, and with one cut at an arbitrary position. The
// reply stream must be the same in all three disciplines and contain exactly
// one reply per command (plus the 354).
func verif_C04_pipeline() {
	verifPreemptBound(0)
	msg := nondetBytesN(2)
	for _, ch := range msg {
		assume(ch != '.' && ch != '\r' && ch != '\n')
	}
	m := len(msg) + 2
	limit := []int{0, m - 1, m, m + 1}[verifChoice(4)]
	in := []byte("EHLO c\r\nMAIL FROM:<a@v>\r\nRCPT TO:<b@v>\r\nDATA\r\n")
	in = append(in, msg...)
	in = append(in, "\r\n.\r\nMAIL FROM:<a2@v>\r\nRCPT TO:<b2@v>\r\nBDAT 2 LAST\r\nxyNOOP\r\nQUIT\r\n"...)
	run := func(seg int, cut int) []byte {
		be := &vbackend{}
		s, _ := verifServer(be)
		s.MaxMessageBytes = int64(limit)
		vc := &vconn{in: in, final: io.EOF, seg: seg}
		if cut > 0 {
			vc.cuts = []int{cut}
		}
		c := newConn(vc, s)
		s.handleConn(c)
		verifSettle()
		return vc.out
	}
	ref := run(0, 0)
	reps, wf := verifParseReplies(ref)
	verifObserve("c04p", msg, limit, wf, len(reps))
	verifAssert(wf, "C04.pipeline-wellformed")
	if !wf {
		return
	}
	// greeting + EHLO MAIL RCPT DATA(354 + final) MAIL RCPT BDAT NOOP QUIT
	verifAssert(len(reps) == 11, "C04.pipeline-one-reply-per-command")
	if len(reps) == 11 {
		verifAssert(reps[4].code == 354 && reps[10].code == 221 && reps[9].code == 250, "C04.pipeline-replies-in-order")
		if limit == 0 || m <= limit {
			verifReach("C04.pipeline-accepted")
			verifAssert(reps[5].code == 250, "C04.pipeline-message-accepted")
		} else {
			verifReach("C04.pipeline-too-large")
			verifAssert(reps[5].code == 552, "C04.pipeline-message-refused")
		}
	}
	switch verifChoice(2) {
	case 0:
		verifAssert(string(run(1, 0)) == string(ref), "C04.octet-by-octet-same-replies")
	case 1:
		cut := nondetInt(1, len(in)-1)
		verifAssert(string(run(0, cut)) == string(ref), "C04.any-cut-same-replies")
	}
}

func verif_C04_line8() { verifLine8Harness("C04") }

func verif_C04_line_mixed() { verifLineMixedHarness("C04") }

// verif_C04_disciplines: a history of k commands (incl. a RCPT the backend
// refuses and a DATA that may be refused or accepted) sent fully pipelined in
// one segment and one command per segment: the reply streams must be identical,
// so no command can lose or gain a reply through the way it was buffered.
func verif_C04_disciplines() {
	items := []string{"MAIL FROM:<a@v>\r\n", "RCPT TO:<b@v>\r\n", "RCPT TO:<rej@v>\r\n", "DATA\r\n", "RSET\r\n", "NOOP\r\n", "x\r\n.\r\n"}
	k := verifBound(4, 5)
	var cmds []string
	for i := 0; i < k; i++ {
		cmds = append(cmds, items[verifChoice(len(items))])
	}
	run := func(pipelined bool) []byte {
		be := &vbackend{}
		be.rcptErr = func(to string) error {
			if to == "rej@v" {
				return verifErrBackend()
			}
			return nil
		}
		s, _ := verifServer(be)
		in := []byte("EHLO c\r\n")
		var cuts []int
		for _, c := range cmds {
			cuts = append(cuts, len(in))
			in = append(in, c...)
		}
		cuts = append(cuts, len(in))
		in = append(in, "QUIT\r\n"...)
		vc := &vconn{in: in, final: io.EOF}
		if !pipelined {
			vc.cuts = cuts
		}
		c := newConn(vc, s)
		s.handleConn(c)
		return vc.out
	}
	a := run(true)
	b := run(false)
	_, wf := verifParseReplies(a)
	verifObserve("c04d", k, wf, len(a), len(b))
	verifAssert(wf, "C04.disciplines-wellformed")
	verifAssert(string(a) == string(b), "C04.pipelined-and-segmented-give-the-same-replies")
	verifReach("C04.disciplines-end")
}

// verif_C04_segmentation: seven fixed conversations that exercise every framing
// mode (dot-stuffed DATA lines, BDAT chunks holding CRLF and dots, a refused
// BDAT whose chunk looks like commands, a message over the size limit, LMTP
// with two recipients, a line over the length limit, chunks longer than the
// line limit) are delivered with one
// (quick) or two (thorough) cuts at ARBITRARY offsets, and octet by octet. The
// reply stream, the backend callbacks and the message octets must be those of
// the unsegmented run.
func verif_C04_segmentation() {
	verifPreemptBound(0)
	verifSchedForkBound(0)
	convs := []string{
		"EHLO c\r\nMAIL FROM:<a@v>\r\nRCPT TO:<b@v>\r\nDATA\r\n..x\r\n.y\r\n\r\n.\r\nNOOP\r\nQUIT\r\n",
		"EHLO c\r\nMAIL FROM:<a@v> BODY=BINARYMIME\r\nRCPT TO:<b@v>\r\nBDAT 4\r\na\r\n.BDAT 3 LAST\r\n\r\n.NOOP\r\nQUIT\r\n",
		"EHLO c\r\nBDAT 6\r\nNOOP\r\nRSET\r\nBDAT 1 x y\r\nZNOOP\r\nQUIT\r\n",
		"EHLO c\r\nMAIL FROM:<a@v>\r\nRCPT TO:<b@v>\r\nDATA\r\n12345678\r\n.\r\nNOOP\r\nQUIT\r\n",
		"LHLO c\r\nMAIL FROM:<a@v>\r\nRCPT TO:<b@v>\r\nRCPT TO:<c@v>\r\nDATA\r\nhi\r\n.\r\nNOOP\r\nQUIT\r\n",
		"EHLO c\r\nNOOP 789012345678901234567890\r\nNOOP\r\n",
		"EHLO c\r\nMAIL FROM:<a@v>\r\nRCPT TO:<b@v>\r\nBDAT 30 LAST\r\n123456789012345678901234567890NOOP\r\nBDAT 28\r\n1234567890123456789012345678NOOP\r\nQUIT\r\n",
	}
	k := verifChoice(len(convs))
	in := []byte(convs[k])
	withEOF := nondetBool() // the segmented run's last octets arrive together with EOF
	type obs struct {
		out    []byte
		kinds  []string
		bodies [][]byte
	}
	run := func(seg int, cuts []int) obs {
		var o obs
		be := &vbackend{}
		be.dataFn = func(_ *vsession, r io.Reader) error {
			b, e := verifReadAll(r, 3)
			o.bodies = append(o.bodies, b)
			if e != io.EOF {
				return e
			}
			return nil
		}
		s, _ := verifServer(be)
		s.EnableBINARYMIME = true
		s.LMTP = k == 4
		if k == 3 {
			s.MaxMessageBytes = 5
		}
		if k == 5 {
			s.MaxLineLength = 20
		}
		if k == 6 {
			// chunks (one accepted, one refused) whose LF-free runs are longer than a line may be
			s.MaxLineLength = 24
		}
		vc := &vconn{in: in, final: io.EOF, seg: seg, cuts: cuts, finalWithData: withEOF && (seg > 0 || cuts != nil)}
		c := newConn(vc, s)
		s.handleConn(c)
		verifSettle()
		o.out = vc.out
		for _, e := range be.trace {
			o.kinds = append(o.kinds, e.kind+" "+e.arg)
		}
		return o
	}
	same := func(a, b obs) bool {
		if string(a.out) != string(b.out) || len(a.kinds) != len(b.kinds) || len(a.bodies) != len(b.bodies) {
			return false
		}
		for i := range a.kinds {
			if a.kinds[i] != b.kinds[i] {
				return false
			}
		}
		for i := range a.bodies {
			if string(a.bodies[i]) != string(b.bodies[i]) {
				return false
			}
		}
		return true
	}
	ref := run(0, nil)
	_, wf := verifParseReplies(ref.out)
	verifAssert(wf && len(ref.out) > 0, "C04.segmentation-reference-wellformed")
	var got obs
	if verifChoice(8) == 0 {
		got = run(1, nil)
	} else {
		cut1 := nondetInt(1, len(in)-1)
		cuts := []int{cut1}
		if verifBound(0, 1) == 1 {
			// a second cut up to 16 octets further on
			hi := cut1 + 16
			if hi > len(in)-1 {
				hi = len(in) - 1
			}
			cut2 := nondetInt(cut1, hi)
			cuts = append(cuts, cut2)
		}
		got = run(0, cuts)
	}
	verifObserve("c04seg", k, len(ref.out), len(got.out), len(ref.kinds), len(got.kinds))
	verifAssert(same(ref, got), "C04.segmentation-does-not-change-the-conversation")
	verifReach("C04.segmentation-end")
}

// verif_C04_conn_isolation: "never the outcome of an earlier transaction",
// across connections (see verifConnIsolation in zz_verif_c08.go).
func verif_C04_conn_isolation() { verifConnIsolation("C04") }

// verif_C04_auth_read_failure: the read of the SASL response line (after a 334
// challenge) fails: the line is over-long, the read deadline expires (the peer
// answers late), or the peer is gone. The server gives up on the connection with
// at most ONE closing reply after the 334, nothing that arrives later is
// answered or executed.
func verif_C04_auth_read_failure() {
	m := &vsasl{failAt: -1, steps: 1, challenge: [][]byte{[]byte("c")}}
	be := &vbackend{authSession: true, mechs: []string{"XVERIF"}}
	be.saslFn = func(_ *vsession, mech string) (sasl.Server, error) { return m, nil }
	s, lg := verifServer(be)
	s.AllowInsecureAuth = true
	s.MaxLineLength = 24
	s.ReadTimeout = time.Second
	head := "EHLO c\r\nAUTH XVERIF\r\n"
	kind := verifChoice(3)
	in := head
	vc := &vconn{final: io.EOF}
	switch kind {
	case 0:
		in += "AAAAAAAAAAAAAAAAAAAAAAAAAAAAAAAAAAAAAAAA\r\nNOOP\r\nMAIL FROM:<late@v>\r\n"
	case 1:
		in += "AA==\r\nNOOP\r\nMAIL FROM:<late@v>\r\n"
		vc.faults = map[int]error{len(head) + nondetInt(0, 3): verifTimeoutErr{}}
	case 2:
	}
	vc.in = []byte(in)
	c := newConn(vc, s)
	err := s.handleConn(c)
	verifSettle()
	reps, wf := verifParseReplies(vc.out)
	verifObserve("c04arf", kind, wf, len(reps), lg.lines)
	verifAssert(wf && err == nil && verifPanicEvents() == 0, "C04.auth-read-failure-clean")
	if !wf {
		return
	}
	verifAssert(len(reps) >= 3 && reps[2].code == 334, "C04.auth-read-failure-challenge")
	if len(reps) < 3 {
		return
	}
	after := reps[3:]
	switch kind {
	case 0:
		verifAssert(len(after) == 1 && after[0].code == 500, "C04.auth-read-failure-one-closing-reply")
	case 1:
		verifAssert(len(after) == 1 && after[0].code == 421, "C04.auth-read-failure-one-closing-reply")
	case 2:
		verifAssert(len(after) == 0, "C04.auth-read-failure-one-closing-reply")
	}
	verifAssert(vc.closed && be.find("Mail", "late@v") < 0 && !c.didAuth, "C04.auth-read-failure-nothing-after")
	verifReach("C04.auth-read-failure-end")
}

// verif_C04_slow_line: the read deadline expires in front of an ARBITRARY
// octet of a pipelined conversation (the peer is slow; the rest arrives
// afterwards). Exactly the commands received in full before that point are
// answered, one reply each, then the idle-timeout notice closes the
// connection: a fragment of a line is never executed as a command, and neither
// is what arrives later.
func verif_C04_slow_line() {
	in := "EHLO c\r\nMAIL FROM:<a@v>\r\nRCPT TO:<b@v>\r\nNOOP\r\nRSET\r\n"
	at := nondetInt(0, len(in)-1)
	be := &vbackend{}
	s, lg := verifServer(be)
	s.ReadTimeout = time.Second
	vc := &vconn{in: []byte(in), final: io.EOF}
	vc.faults = map[int]error{at: verifTimeoutErr{}}
	c := newConn(vc, s)
	err := s.handleConn(c)
	verifSettle()
	complete := 0
	for i := 0; i < at; i++ {
		if in[i] == '\n' {
			complete++
		}
	}
	reps, wf := verifParseReplies(vc.out)
	verifObserve("c04slow", at, complete, wf, len(reps), lg.lines)
	verifAssert(wf && err == nil && lg.lines == 0, "C04.slow-line-clean")
	if !wf {
		return
	}
	verifAssert(len(reps) == 1+complete+1, "C04.slow-line-one-reply-per-complete-command")
	if len(reps) == 1+complete+1 {
		for _, r := range reps[1 : 1+complete] {
			verifAssert(r.code == 250, "C04.slow-line-complete-commands-executed")
		}
		verifAssert(reps[len(reps)-1].code == 421, "C04.slow-line-idle-timeout-notice")
	}
	verifAssert(vc.closed, "C04.slow-line-closed")
	verifAssert((be.count("Mail") == 1) == (complete >= 2) && (be.count("Rcpt") == 1) == (complete >= 3), "C04.slow-line-no-fragment-executed")
	verifReach("C04.slow-line-end")
}

// verif_C04_lmtp_case: "a negative reply carries that message's own error", per
// recipient (see verifLMTPCase in zz_verif_c13.go).
func verif_C04_lmtp_case() { verifLMTPCase("C04") }

// verifTwoMessages: two messages one after the other on ONE connection, each
// sent with DATA, with one BDAT LAST chunk or with two chunks, and each ending
// in its own way: accepted, refused by the backend with the message's own
// SMTPError, over the size limit (552), or - chunked only - abandoned by RSET
// after its first chunk, or refused by the backend at once, before it has read
// a single octet. Every command gets exactly the reply that ITS message's
// own course calls for: nothing of the first message's outcome (a refusal, the
// too-large condition, an abandoned transfer's late result) shows in the
// second's replies, and the backend reads each delivered message's own octets.
func verifTwoMessages(prop string) {
	verifPreemptBound(1)
	if prop == "C20" {
		verifHB(true)
	}
	lmtp := nondetBool()
	const limit = 4
	mode := []int{verifChoice(3), verifChoice(3)}
	outcome := []int{verifChoice(5), verifChoice(5)}
	for i := 0; i < 2; i++ {
		if outcome[i] == 3 {
			assume(mode[i] == 2)
		}
	}
	ncall := 0
	got := make([][]byte, 2)
	be := &vbackend{}
	which := []int{} // which message each Data call belongs to
	be.dataFn = func(_ *vsession, r io.Reader) error {
		idx := ncall
		me := which[idx]
		ncall++
		if outcome[me] == 4 {
			got[idx] = []byte{}
			return &SMTPError{Code: 550 + me, EnhancedCode: EnhancedCode{5, 7, me + 1}, Message: "refused msg" + strconv.Itoa(me)}
		}
		// (an abandoned transfer's delivery may finish reading after the next
		// one has started: results are filed under the call's own number)
		b, rerr := verifReadAll(r, 3)
		got[idx] = b
		if rerr != io.EOF {
			return rerr
		}
		if outcome[me] == 1 {
			return &SMTPError{Code: 550 + me, EnhancedCode: EnhancedCode{5, 7, me + 1}, Message: "refused msg" + strconv.Itoa(me)}
		}
		return nil
	}
	s, lg := verifServer(be)
	s.LMTP = lmtp
	s.MaxMessageBytes = limit
	hello := "EHLO c\r\n"
	if lmtp {
		hello = "LHLO c\r\n"
	}
	in := hello
	type exp struct {
		code int
		text string // suffix of the first line, "" = not checked
	}
	want := []exp{{220, ""}, {250, ""}}
	var wantBodies []string
	for i := 0; i < 2; i++ {
		body := "m" + strconv.Itoa(i) + "\r\n" // exactly the limit
		if outcome[i] == 2 {
			body = "m" + strconv.Itoa(i) + "xy\r\n" // two octets over
		}
		in += "MAIL FROM:<s" + strconv.Itoa(i) + "@v>\r\nRCPT TO:<r@v>\r\n"
		want = append(want, exp{250, ""}, exp{250, ""})
		fin := exp{250, ""}
		switch outcome[i] {
		case 1, 4:
			fin = exp{550 + i, "5.7." + strconv.Itoa(i+1) + " refused msg" + strconv.Itoa(i)}
			if lmtp {
				fin.text = "5.7." + strconv.Itoa(i+1) + " <r@v> refused msg" + strconv.Itoa(i)
			}
		case 2:
			fin = exp{552, ""}
		}
		delivered := true
		switch mode[i] {
		case 0:
			in += "DATA\r\n" + body + ".\r\n"
			want = append(want, exp{354, ""}, fin)
		case 1:
			in += "BDAT " + strconv.Itoa(len(body)) + " LAST\r\n" + body
			want = append(want, fin)
			if outcome[i] == 2 {
				delivered = false // refused before anything is handed over
			}
		case 2:
			in += "BDAT 2\r\n" + body[:2]
			want = append(want, exp{250, ""})
			if outcome[i] == 3 {
				in += "RSET\r\n"
				want = append(want, exp{250, ""})
			} else if outcome[i] == 4 {
				// refused on the first chunk (not the final reply: no
				// recipient prefix in LMTP); the LAST chunk then belongs to
				// no transaction: refused, its octets discarded
				want[len(want)-1] = exp{550 + i, "5.7." + strconv.Itoa(i+1) + " refused msg" + strconv.Itoa(i)}
				in += "BDAT " + strconv.Itoa(len(body)-2) + " LAST\r\n" + body[2:]
				want = append(want, exp{-5, ""})
				verifReach(prop + ".two-messages-early-refusal-chunked")
			} else {
				in += "BDAT " + strconv.Itoa(len(body)-2) + " LAST\r\n" + body[2:]
				want = append(want, fin)
			}
		}
		if delivered {
			which = append(which, i)
			switch {
			case outcome[i] == 4:
				wantBodies = append(wantBodies, "")
			case outcome[i] == 3:
				wantBodies = append(wantBodies, body[:2])
			case outcome[i] == 2 && mode[i] == 0:
				wantBodies = append(wantBodies, body[:limit])
			case outcome[i] == 2:
				wantBodies = append(wantBodies, body[:2])
			default:
				wantBodies = append(wantBodies, body)
			}
		}
	}
	in += "NOOP\r\n"
	want = append(want, exp{250, ""})
	vc, _, _ := verifServe(s, []byte(in), io.EOF)
	reps, wf := verifParseReplies(vc.out)
	verifObserve("twomsg", lmtp, mode[0], outcome[0], mode[1], outcome[1], wf, len(reps), len(want), ncall)
	if prop == "C20" {
		// C20 is about races (the monitor), deadlocks (the scheduler) and
		// goroutines left behind: what the replies say is C04's business
		verifAssert(verifGoroutinesAlive() == 0, prop+".two-messages-no-goroutine-left")
		verifReach(prop + ".two-messages-end")
		return
	}
	if prop == "C01" {
		// C01 is about the octets of a message sent with DATA that reaches the
		// backend in full: each such message is read as its own octets,
		// whatever happened to the other message on the connection
		for idx, me := range which {
			if outcome[me] <= 1 && mode[me] == 0 {
				verifAssert(ncall > idx && string(got[idx]) == wantBodies[idx], prop+".two-messages-backend-reads-own-octets")
			}
		}
		verifReach(prop + ".two-messages-end")
		return
	}
	if prop == "C17" {
		// C17 is about the backend's own errors: where the conversation is in
		// step, each refusal carries its message's own code and text
		if wf && len(reps) == len(want) {
			for i, w := range want {
				if w.text != "" {
					verifAssert(reps[i].code == w.code && len(reps[i].lines) == 1 && reps[i].lines[0] == w.text, prop+".two-messages-refusal-carries-own-error")
				}
			}
		}
		verifReach(prop + ".two-messages-end")
		return
	}
	verifAssert(wf && len(reps) == len(want), prop+".two-messages-one-reply-per-command")
	if !wf || len(reps) != len(want) {
		return
	}
	for i, w := range want {
		if w.code < 0 {
			verifAssert(reps[i].code/100 == -w.code, prop+".two-messages-each-reply-reports-its-own-message")
			continue
		}
		verifAssert(reps[i].code == w.code, prop+".two-messages-each-reply-reports-its-own-message")
		if w.text != "" {
			verifAssert(len(reps[i].lines) == 1 && reps[i].lines[0] == w.text, prop+".two-messages-refusal-carries-own-error")
		}
	}
	verifAssert(ncall == len(wantBodies), prop+".two-messages-one-data-call-per-delivered-message")
	if ncall == len(wantBodies) {
		for i := range wantBodies {
			verifAssert(string(got[i]) == wantBodies[i], prop+".two-messages-backend-reads-own-octets")
		}
	}
	verifAssert(lg.lines == 0, prop+".two-messages-nothing-logged")
	verifAssert(verifGoroutinesAlive() == 0, prop+".two-messages-no-goroutine-left")
	verifReach(prop + ".two-messages-end")
}

func verif_C04_two_messages() { verifTwoMessages("C04") }
func verif_C04_data_timeout() { verifDataTimeout("C04") }

// verif_C04_after_chunk: a chunk followed, in the same network read, by n
// complete command lines that are short each but together longer than
// MaxLineLength: every one of them gets its own reply, none is refused for a
// length it does not have, and the connection stays open for what follows in
// the next read.
func verif_C04_after_chunk() {
	n := nondetInt(1, 6)
	be := &vbackend{}
	s, lg := verifServer(be)
	s.MaxLineLength = 24
	first := "EHLO c\r\nMAIL FROM:<s@v>\r\nRCPT TO:<r@v>\r\n"
	second := "BDAT 2 LAST\r\nab"
	for i := 0; i < n; i++ {
		second += "NOOP\r\n"
	}
	third := "RSET\r\nQUIT\r\n"
	in := first + second + third
	vc := &vconn{in: []byte(in), final: io.EOF}
	// the chunk command, the chunk and the n lines arrive in ONE read
	vc.cuts = []int{len(first), len(first) + len(second)}
	if nondetBool() {
		vc.cuts = append(vc.cuts, len(first)+len("BDAT 2 LAST\r\n"))
	}
	c := newConn(vc, s)
	s.handleConn(c)
	verifSettle()
	reps, wf := verifParseReplies(vc.out)
	verifObserve("c04ac", n, wf, len(reps), lg.lines)
	verifAssert(wf && len(reps) == 5+n+2 && lg.lines == 0, "C04.after-chunk-one-reply-per-command")
	if wf && len(reps) == 5+n+2 {
		for i := 4; i < 5+n+1; i++ {
			verifAssert(reps[i].code == 250, "C04.after-chunk-short-lines-not-refused")
		}
		verifAssert(reps[5+n+1].code == 221, "C04.after-chunk-quit-answered")
	}
	verifReach("C04.after-chunk-end")
}
