package exec

import (
	"golang.org/x/tools/go/ssa"
)

// presetGlobals provides the few globals of non-initialised packages that the
// encoded code reads.
func presetGlobals(ex *Exec, pkg *ssa.Package) {
	switch pkg.Pkg.Path() {
	case "net":
		if g, ok := pkg.Members["ErrClosed"].(*ssa.Global); ok {
			errs := ex.prog.SSA.ImportedPackage("errors")
			saved := ex.cur
			if ex.cur == nil {
				ex.cur = &goroutine{id: -1}
			}
			e := ex.callSSA(nil, errs.Func("New"), []value{"use of closed network connection"}, nil)
			ex.cur = saved
			*ex.persistGlobals[g] = e
		}
	}
}

// vregexp placeholder type is defined in regexp.go
