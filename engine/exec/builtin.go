package exec

import (
	"fmt"
	"go/types"

	"golang.org/x/tools/go/ssa"

	"verif/gosym/sym"
)

func (ex *Exec) callBuiltin(caller *frame, fn *ssa.Builtin, args []value) value {
	switch fn.Name() {
	case "append":
		if len(args) == 1 {
			return args[0]
		}
		a0, _ := args[0].([]value)
		var tail []value
		switch a1 := args[1].(type) {
		case []value:
			tail = a1
		case string, symstr:
			tail = ex.strOctets(a1)
		case nil:
		default:
			panic(fmt.Sprintf("append: unexpected %T", a1))
		}
		if len(tail) == 0 {
			return a0
		}
		// copy aggregates
		need := len(a0) + len(tail)
		if need <= cap(a0) {
			// in place: the spare capacity may be shared with another slice
			// header (s[:0] of a slice somebody else still holds)
			res := a0[:need]
			for i, v := range tail {
				if ex.hb != nil {
					ex.hbWhat = "slice element written by append"
					ex.hbWrite(&res[len(a0)+i])
				}
				res[len(a0)+i] = copyVal(v)
			}
			return res
		}
		if ex.hb != nil {
			for i := range a0 {
				ex.hbWhat = "slice element copied by append"
				ex.hbRead(&a0[i])
			}
		}
		ncap := cap(a0) * 2
		if ncap < need {
			ncap = need
		}
		if ncap < 8 {
			ncap = 8
		}
		res := make([]value, need, ncap)
		copy(res, a0)
		for i, v := range tail {
			res[len(a0)+i] = copyVal(v)
		}
		return res
	case "copy":
		dst, _ := args[0].([]value)
		var src []value
		switch a1 := args[1].(type) {
		case []value:
			src = a1
		case string, symstr:
			src = ex.strOctets(a1)
		}
		n := len(dst)
		if len(src) < n {
			n = len(src)
		}
		// handle overlap like memmove
		if n > 0 && len(dst) > 0 && len(src) > 0 {
			tmp := make([]value, n)
			for i := 0; i < n; i++ {
				tmp[i] = copyVal(src[i])
			}
			copy(dst, tmp)
		}
		return uint64(n)
	case "close":
		ex.chanClose(args[0].(*vchan))
		return nil
	case "delete":
		m, _ := args[0].(*vmap)
		m.delete(ex, args[1])
		return nil
	case "print", "println":
		return nil
	case "len":
		switch x := args[0].(type) {
		case string:
			return uint64(len(x))
		case symstr:
			return uint64(len(x))
		case opaque:
			ex.inconclusive("len of opaque string: " + x.why)
		case array:
			return uint64(len(x))
		case *value:
			if x == nil {
				// len(*[N]T)(nil) is N statically; SSA gives constant, so unreachable
				return uint64(0)
			}
			return uint64(len((*x).(array)))
		case []value:
			return uint64(len(x))
		case *vmap:
			return uint64(x.length())
		case *vchan:
			if x == nil {
				return uint64(0)
			}
			return uint64(len(x.buf))
		}
		panic(fmt.Sprintf("len: illegal operand: %T", args[0]))
	case "cap":
		switch x := args[0].(type) {
		case array:
			return uint64(len(x))
		case *value:
			return uint64(len((*x).(array)))
		case []value:
			return uint64(cap(x))
		case *vchan:
			if x == nil {
				return uint64(0)
			}
			return uint64(x.cap)
		}
		panic(fmt.Sprintf("cap: illegal operand: %T", args[0]))
	case "min", "max":
		// integers only
		sig := fn.Type().(*types.Signature)
		k := basicKind(sig.Params().At(0).Type())
		if k.cls != clsInt {
			ex.inconclusive("min/max on non-integers")
		}
		res := args[0]
		for _, a := range args[1:] {
			var less value
			if fn.Name() == "min" {
				less = ex.intBinopLess(k, a, res)
			} else {
				less = ex.intBinopLess(k, res, a)
			}
			if lb, ok := less.(bool); ok {
				if lb {
					res = a
				}
			} else {
				res = norm(ex.ctx.Ite(less.(*sym.Term), ex.termOf(a, k.w), ex.termOf(res, k.w)))
			}
		}
		return res
	case "clear":
		switch x := args[0].(type) {
		case *vmap:
			if x != nil {
				*x = *newMap(x.keyType)
			}
		case []value:
			if len(x) > 0 {
				sig := fn.Type().(*types.Signature)
				te := sig.Params().At(0).Type().Underlying().(*types.Slice).Elem()
				for i := range x {
					x[i] = zero(te)
				}
			}
		}
		return nil
	case "panic":
		panic(targetPanic{args[0]})
	case "recover":
		return ex.doRecover(caller)
	case "ssa:wrapnilchk":
		recv := args[0]
		if p, ok := recv.(*value); ok && p == nil {
			ex.rtPanic(fmt.Sprintf("value method %s.%s called using nil pointer", toString(args[1]), toString(args[2])))
		}
		return recv
	case "ssa:deferstack":
		return &caller.defers
	case "SliceData":
		s, _ := args[0].([]value)
		return sliceData{s: s}
	case "StringData":
		return sliceData{str: args[0]}
	case "String":
		sd, ok := args[0].(sliceData)
		n := ex.concInt(args[1], 64, true, 8, "unsafe.String len")
		if !ok {
			if n == 0 {
				return ""
			}
			ex.inconclusive("unsafe.String on an unsupported pointer")
		}
		if sd.str != nil {
			return strSlice(sd.str, 0, int(n))
		}
		return mkStr(sd.s[:n])
	case "Slice":
		sd, ok := args[0].(sliceData)
		n := ex.concInt(args[1], 64, true, 8, "unsafe.Slice len")
		if !ok {
			if n == 0 {
				return []value(nil)
			}
			ex.inconclusive("unsafe.Slice on an unsupported pointer")
		}
		if sd.str != nil {
			o := ex.strOctets(sd.str)
			out := make([]value, n)
			copy(out, o[:n])
			return out
		}
		return sd.s[:n:n]
	}
	ex.inconclusive("unsupported builtin " + fn.Name())
	return nil
}

func (ex *Exec) intBinopLess(k kind, a, b value) value {
	au, ac := a.(uint64)
	bu, bc := b.(uint64)
	if ac && bc {
		if k.signed {
			return sextW(au, k.w) < sextW(bu, k.w)
		}
		return au < bu
	}
	op := sym.OpUlt
	if k.signed {
		op = sym.OpSlt
	}
	return norm(ex.ctx.Cmp(op, ex.termOf(a, k.w), ex.termOf(b, k.w)))
}
