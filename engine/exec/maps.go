package exec

import (
	"go/types"

	"verif/gosym/sym"
)

// vmap is an insertion-ordered map. Keys with symbolic content are compared
// symbolically (forking when undecided). Iteration order is insertion order
// (Go leaves it unspecified; harnesses that care can ask for reverse order).
type vmap struct {
	keyType types.Type
	keys    []value
	vals    []value
	live    []bool
	n       int
	idx     map[interface{}]int // fast path for concrete comparable keys
}

func newMap(kt types.Type) *vmap {
	return &vmap{keyType: kt, idx: map[interface{}]int{}}
}

func fastKey(k value) (interface{}, bool) {
	switch k := k.(type) {
	case string, uint64, bool, *value, *vchan, float64:
		return k, true
	}
	return nil, false
}

func hasSym(v value) bool {
	switch v := v.(type) {
	case *sym.Term, symstr:
		return true
	case structure:
		for _, e := range v {
			if hasSym(e) {
				return true
			}
		}
	case array:
		for _, e := range v {
			if hasSym(e) {
				return true
			}
		}
	case iface:
		return hasSym(v.v)
	}
	return false
}

// find returns the index of key k, or -1.
func (m *vmap) find(ex *Exec, k value) int {
	if m == nil {
		return -1
	}
	if fk, ok := fastKey(k); ok && !m.anySym() {
		if i, ok := m.idx[fk]; ok {
			return i
		}
		if len(m.idx) == m.n {
			return -1
		}
	}
	for i := range m.keys {
		if !m.live[i] {
			continue
		}
		if ex.branch(ex.eqv(m.keyType, m.keys[i], k)) {
			return i
		}
	}
	return -1
}

func (m *vmap) anySym() bool {
	// number of fast-indexed keys differs from live keys iff some key is slow
	return len(m.idx) != m.n
}

func (m *vmap) lookup(ex *Exec, k value) (value, bool) {
	i := m.find(ex, k)
	if i < 0 {
		return nil, false
	}
	return m.vals[i], true
}

func (m *vmap) insert(ex *Exec, k, v value) {
	if m == nil {
		ex.rtPanic("assignment to entry in nil map")
	}
	if i := m.find(ex, k); i >= 0 {
		m.vals[i] = v
		return
	}
	m.keys = append(m.keys, k)
	m.vals = append(m.vals, v)
	m.live = append(m.live, true)
	m.n++
	if fk, ok := fastKey(k); ok {
		m.idx[fk] = len(m.keys) - 1
	}
}

func (m *vmap) delete(ex *Exec, k value) {
	if m == nil {
		return
	}
	i := m.find(ex, k)
	if i < 0 {
		return
	}
	m.live[i] = false
	m.n--
	if fk, ok := fastKey(m.keys[i]); ok {
		delete(m.idx, fk)
	}
}

func (m *vmap) length() int {
	if m == nil {
		return 0
	}
	return m.n
}

type mapIter struct {
	m    *vmap
	i    int
	rev  bool
	init bool
}

func (it *mapIter) next(ex *Exec) tuple {
	m := it.m
	if m == nil {
		return tuple{false, nil, nil}
	}
	if !it.init {
		it.init = true
		if it.rev {
			it.i = len(m.keys) - 1
		}
	}
	for it.i >= 0 && it.i < len(m.keys) {
		i := it.i
		if it.rev {
			it.i--
		} else {
			it.i++
		}
		if m.live[i] {
			return tuple{true, m.keys[i], m.vals[i]}
		}
	}
	return tuple{false, nil, nil}
}
