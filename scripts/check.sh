#!/bin/sh
# usage: check.sh <ID> <quick|thorough>
export GOFLAGS=-mod=mod GOPROXY=off GOSUMDB=off GOTOOLCHAIN=local CGO_ENABLED=0
[ -x /verif/bin/check ] || /verif/scripts/setup.sh >/dev/null || exit 2
exec /verif/bin/check "$1" --tier "$2"
