package exec

import (
	"fmt"
	"go/types"
	"strconv"
	"strings"
	"unicode"

	"golang.org/x/tools/go/ssa"

	"verif/gosym/sym"
)

// Intrinsics: native implementations of (a) the harness API, (b) functions
// that have no Go body (assembly), (c) functions whose Go body would fork
// needlessly on symbolic octets (ASCII case mapping) and (d) the environment
// boundary (sync, time, fmt formatting, regexp, TLS stub). Each is part of
// the trusted base and is listed in the evidence.

var intrinsics = map[string]intrinsic{}

// harnessAPI maps the unqualified names of the harness API functions.
var harnessAPI = map[string]intrinsic{}

func lookupIntrinsic(fn *ssa.Function, name string) intrinsic {
	if in, ok := intrinsics[name]; ok {
		return in
	}
	if fn.Pkg != nil && fn.Parent() == nil && fn.Signature.Recv() == nil {
		if in, ok := harnessAPI[fn.Name()]; ok && (strings.HasPrefix(fn.Name(), "nondet") || strings.HasPrefix(fn.Name(), "verif") || fn.Name() == "assume") {
			return in
		}
	}
	return nil
}

func reg(name string, f intrinsic) { intrinsics[name] = f }

func init() {
	// ---- harness API -----------------------------------------------------
	harnessAPI["nondetBool"] = func(ex *Exec, fr *frame, a []value) value { return ex.newNondet("bool", 0) }
	harnessAPI["nondetByte"] = func(ex *Exec, fr *frame, a []value) value { return ex.newNondet("u8", 8) }
	harnessAPI["nondetRune"] = func(ex *Exec, fr *frame, a []value) value { return ex.newNondet("i32", 32) }
	harnessAPI["nondetInt64"] = func(ex *Exec, fr *frame, a []value) value { return ex.newNondet("i64", 64) }
	harnessAPI["nondetInt"] = func(ex *Exec, fr *frame, a []value) value {
		v := ex.newNondet("i64", 64)
		lo, loc := a[0].(uint64)
		hi, hic := a[1].(uint64)
		if t, ok := v.(*sym.Term); ok {
			c := ex.ctx
			if loc && hic {
				if int64(lo) > int64(hi) {
					panic(pathAbort{abortAssume, "nondetInt: empty range"})
				}
				if lo == hi {
					ex.addPC(c.Eq(t, c.BV(lo, 64)))
					return lo
				}
				ex.addPC(c.And(c.Cmp(sym.OpSle, c.BV(lo, 64), t), c.Cmp(sym.OpSle, t, c.BV(hi, 64))))
				return t
			}
			// symbolic bounds: an ordinary assumption
			ex.assume(norm(c.And(c.Cmp(sym.OpSle, ex.termOf(a[0], 64), t), c.Cmp(sym.OpSle, t, ex.termOf(a[1], 64)))))
			return t
		}
		u := v.(uint64)
		if !loc || !hic {
			panic("nondetInt: symbolic bounds in pinned mode")
		}
		if int64(u) < int64(lo) || int64(u) > int64(hi) {
			panic(pathAbort{abortAssume, "nondetInt: pinned value out of range"})
		}
		return u
	}
	harnessAPI["nondetBytes"] = func(ex *Exec, fr *frame, a []value) value {
		return ex.nondetOctets(a[0])
	}
	harnessAPI["nondetString"] = func(ex *Exec, fr *frame, a []value) value {
		return mkStr(ex.nondetOctets(a[0]))
	}
	harnessAPI["nondetBytesN"] = func(ex *Exec, fr *frame, a []value) value {
		n := int(ex.concInt(a[0], 64, true, 256, "nondetBytesN length"))
		out := make([]value, n)
		for i := range out {
			out[i] = ex.newNondet("u8", 8)
		}
		return out
	}
	harnessAPI["nondetStringN"] = func(ex *Exec, fr *frame, a []value) value {
		n := int(ex.concInt(a[0], 64, true, 256, "nondetStringN length"))
		out := make([]value, n)
		for i := range out {
			out[i] = ex.newNondet("u8", 8)
		}
		return mkStr(out)
	}
	harnessAPI["assume"] = func(ex *Exec, fr *frame, a []value) value { ex.assume(a[0]); return nil }
	harnessAPI["verifAssert"] = func(ex *Exec, fr *frame, a []value) value {
		ex.assert(a[0], a[1].(string))
		return nil
	}
	harnessAPI["verifReach"] = func(ex *Exec, fr *frame, a []value) value {
		l := a[0].(string)
		ex.ps.reached[l] = true
		if ex.WitnessMode && !ex.witnessed[l] && !ex.ps.pinMode {
			// reachability witness: concrete inputs that drive the harness here
			if r, m := ex.solver.ModelWith(ex.allVars()); r == sym.Sat {
				ex.witnessed[l] = true
				w := Violation{Label: "witness:" + l}
				w.Inputs, w.Kinds = ex.modelInputs(m)
				w.Sched = ex.schedChoices()
				ex.ps.witnesses = append(ex.ps.witnesses, w)
			}
		}
		return nil
	}
	harnessAPI["verifNoReach"] = func(ex *Exec, fr *frame, a []value) value {
		ex.ps.reached["!"+a[0].(string)] = true
		return nil
	}
	harnessAPI["verifObserve"] = func(ex *Exec, fr *frame, a []value) value {
		var sb strings.Builder
		sb.WriteString(a[0].(string))
		for _, x := range a[1].([]value) {
			sb.WriteString(" ")
			sb.WriteString(ex.obsString(x))
		}
		ex.observe(sb.String())
		return nil
	}
	harnessAPI["verifKnown"] = func(ex *Exec, fr *frame, a []value) value {
		ex.ps.knowns = append(ex.ps.knowns, knownCond{a[0].(string), a[1]})
		return nil
	}
	harnessAPI["verifBound"] = func(ex *Exec, fr *frame, a []value) value {
		if ex.Tier >= 1 {
			return a[1]
		}
		return a[0]
	}
	harnessAPI["verifChoice"] = func(ex *Exec, fr *frame, a []value) value {
		n := int(a[0].(uint64))
		if ex.ps.pinMode {
			v := ex.newNondet("choice", 64).(uint64)
			if int(v) >= n {
				panic(pathAbort{abortAssume, "verifChoice: pinned value out of range"})
			}
			return v
		}
		idx := len(ex.ps.nondets)
		i := ex.chooseK('c', n, "verifChoice")
		ex.ps.nondets = append(ex.ps.nondets, &Nondet{Name: fmt.Sprintf("n%d_choice", idx), Kind: "choice", W: 64, Conc: true, CV: uint64(i)})
		return uint64(i)
	}
	harnessAPI["verifYield"] = func(ex *Exec, fr *frame, a []value) value { ex.preemptPoint("verifYield"); return nil }
	harnessAPI["verifSettle"] = func(ex *Exec, fr *frame, a []value) value { ex.quiesce(); return nil }
	harnessAPI["verifQuiesce"] = func(ex *Exec, fr *frame, a []value) value { ex.quiesce(); return nil }
	harnessAPI["verifGoroutinesAlive"] = func(ex *Exec, fr *frame, a []value) value {
		n := 0
		for _, g := range ex.gs[1:] {
			if g.state != gDone {
				n++
			}
		}
		return uint64(n)
	}
	harnessAPI["verifPanicEvents"] = func(ex *Exec, fr *frame, a []value) value {
		return uint64(len(ex.ps.panics))
	}
	harnessAPI["verifSymbolic"] = func(ex *Exec, fr *frame, a []value) value { return !ex.ps.pinMode }
	harnessAPI["verifRaces"] = func(ex *Exec, fr *frame, a []value) value {
		if ex.hb == nil {
			return uint64(0)
		}
		return uint64(len(ex.hb.races))
	}
	harnessAPI["verifHB"] = func(ex *Exec, fr *frame, a []value) value {
		if a[0].(bool) {
			ex.hb = &hbState{cells: map[*value]*hbCell{}, seen: map[string]bool{}}
			for _, g := range ex.gs {
				if g.vc.at(g.id) == 0 {
					g.vc.set(g.id, 1)
				}
			}
		} else {
			ex.hb = nil
		}
		return nil
	}
	harnessAPI["verifMapOrder"] = func(ex *Exec, fr *frame, a []value) value { ex.MapRev = ex.branch(a[0]); return nil }
	harnessAPI["verifPreemptBound"] = func(ex *Exec, fr *frame, a []value) value {
		ex.PreemptBound = int(a[0].(uint64))
		return nil
	}
	harnessAPI["verifSchedForkBound"] = func(ex *Exec, fr *frame, a []value) value {
		ex.SchedForkBound = int(a[0].(uint64))
		return nil
	}
	harnessAPI["verifIsConcrete"] = func(ex *Exec, fr *frame, a []value) value {
		return !hasSym(a[0].(iface).v)
	}

	// ---- internal/bytealg, bytes, strings ----------------------------------
	idxByte := func(ex *Exec, fr *frame, a []value) value {
		var s []value
		if sl, ok := a[0].([]value); ok {
			s = sl
		} else {
			s = ex.strOctets(a[0])
		}
		return ex.indexByte(s, a[1])
	}
	for _, n := range []string{"internal/bytealg.IndexByte", "internal/bytealg.IndexByteString", "bytes.IndexByte", "strings.IndexByte"} {
		reg(n, idxByte)
	}
	reg("internal/bytealg.MakeNoZero", func(ex *Exec, fr *frame, a []value) value {
		n := int(a[0].(uint64))
		out := make([]value, n)
		for i := range out {
			out[i] = uint64(0)
		}
		return out
	})
	eq := func(ex *Exec, fr *frame, a []value) value {
		return ex.octetsEq(ex.octetsOf(a[0]), ex.octetsOf(a[1]))
	}
	reg("bytes.Equal", eq)
	reg("internal/bytealg.Equal", eq)
	count := func(ex *Exec, fr *frame, a []value) value {
		s := ex.octetsOf(a[0])
		n := 0
		for _, o := range s {
			if ex.branch(ex.eqv(nil, o, a[1])) {
				n++
			}
		}
		return uint64(n)
	}
	reg("internal/bytealg.Count", count)
	reg("internal/bytealg.CountString", count)
	index := func(ex *Exec, fr *frame, a []value) value {
		s, sep := ex.octetsOf(a[0]), ex.octetsOf(a[1])
		return uint64(int64(ex.indexOctets(s, sep)))
	}
	reg("strings.Index", index)
	reg("bytes.Index", index)
	reg("internal/bytealg.Index", index)
	reg("internal/bytealg.IndexString", index)
	reg("strings.Count", func(ex *Exec, fr *frame, a []value) value {
		s, sep := ex.octetsOf(a[0]), ex.octetsOf(a[1])
		if len(sep) == 0 {
			// number of runes + 1
			n := 0
			it := &stringIter{s: s}
			for it.next(ex)[0] == true {
				n++
			}
			return uint64(n + 1)
		}
		n := 0
		for {
			i := ex.indexOctets(s, sep)
			if i < 0 {
				return uint64(n)
			}
			n++
			s = s[i+len(sep):]
		}
	})
	reg("strings.ToUpper", func(ex *Exec, fr *frame, a []value) value { return ex.caseMap(fr, a[0], true) })
	reg("strings.ToLower", func(ex *Exec, fr *frame, a []value) value { return ex.caseMap(fr, a[0], false) })
	reg("strings.EqualFold", func(ex *Exec, fr *frame, a []value) value {
		x, y := a[0], a[1]
		if xs, ok := x.(string); ok {
			if ys, ok := y.(string); ok {
				return strings.EqualFold(xs, ys)
			}
		}
		xo, yo := ex.strOctets(x), ex.strOctets(y)
		if !asciiConcrete(yo) {
			xo, yo = yo, xo
		}
		if !asciiConcrete(yo) {
			ex.inconclusive("strings.EqualFold on two non-literal strings")
		}
		// yo is concrete ASCII. A rune of x matches the ASCII letter y[j] iff
		// it is the same ASCII letter ignoring case, or it is one of the two
		// non-ASCII runes that fold into ASCII: U+017F (s) and U+212A (k).
		i, j := 0, 0
		var acc value = true
		for i < len(xo) {
			if j >= len(yo) {
				return false
			}
			yc := yo[j].(uint64)
			special := yc == 'k' || yc == 'K' || yc == 's' || yc == 'S'
			if !special {
				acc = ex.andv(acc, ex.eqv(nil, ex.upperOctet(xo[i]), ex.upperOctet(yo[j])))
				i++
			} else {
				r, w := ex.decodeRune(xo, i)
				var cond value
				if w == 1 {
					cond = ex.eqv(nil, ex.upperOctet(xo[i]), ex.upperOctet(yo[j]))
					// an invalid octet decodes to U+FFFD, never equal to ASCII:
					// upperOctet leaves it >= 0x80, so cond is false as required
				} else {
					want := uint64(0x17F)
					if yc == 'k' || yc == 'K' {
						want = 0x212A
					}
					cond = ex.eqv(nil, r, want)
				}
				acc = ex.andv(acc, cond)
				i += w
			}
			j++
			if acc == false {
				return false
			}
		}
		if j != len(yo) {
			return false
		}
		return acc
	})
	reg("strings.Clone", func(ex *Exec, fr *frame, a []value) value { return a[0] })
	reg("internal/stringslite.Clone", func(ex *Exec, fr *frame, a []value) value { return a[0] })
	reg("bytes.Clone", func(ex *Exec, fr *frame, a []value) value {
		s, _ := a[0].([]value)
		if s == nil {
			return []value(nil)
		}
		out := make([]value, len(s))
		copy(out, s)
		return out
	})
	reg("(*strings.Builder).copyCheck", func(ex *Exec, fr *frame, a []value) value { return nil })

	// ---- unicode/utf8 ---------------------------------------------------------
	dec := func(ex *Exec, fr *frame, a []value) value {
		r, w := ex.decodeRune(ex.octetsOf(a[0]), 0)
		return tuple{r, uint64(w)}
	}
	reg("unicode/utf8.DecodeRuneInString", dec)
	reg("unicode/utf8.DecodeRune", dec)

	// ---- misc -------------------------------------------------------------
	reg("runtime/debug.Stack", func(ex *Exec, fr *frame, a []value) value { return []value{} })
	reg("log.New", func(ex *Exec, fr *frame, a []value) value { return (*value)(nil) })
	reg("runtime.Gosched", func(ex *Exec, fr *frame, a []value) value { ex.preemptPoint("Gosched"); return nil })
	reg("runtime.KeepAlive", func(ex *Exec, fr *frame, a []value) value { return nil })
	reg("internal/race.Enabled", nil)
	reg("errors.Is", func(ex *Exec, fr *frame, a []value) value { return ex.errorsIs(fr, a[0].(iface), a[1].(iface)) })
	reg("errors.As", func(ex *Exec, fr *frame, a []value) value { return ex.errorsAs(fr, a[0].(iface), a[1].(iface)) })
}

// branchVal forks on a symbolic boolean so that the caller gets a concrete one.
func (ex *Exec) branchVal(v value) value {
	return ex.branch(v)
}

func (ex *Exec) octetsOf(v value) []value {
	if sl, ok := v.([]value); ok {
		return sl
	}
	return ex.strOctets(v)
}

func (ex *Exec) octetsEq(a, b []value) value {
	if len(a) != len(b) {
		return false
	}
	var acc value = true
	for i := range a {
		acc = ex.andv(acc, ex.eqv(nil, a[i], b[i]))
		if acc == false {
			return false
		}
	}
	return acc
}

func (ex *Exec) ltConst(o value, k uint64) value {
	if u, ok := o.(uint64); ok {
		return u < k
	}
	t := o.(*sym.Term)
	return norm(ex.ctx.Cmp(sym.OpUlt, t, ex.ctx.BV(k, t.W)))
}

// indexByte: first position of c in s, forking on "first position where the
// octets agree".
func (ex *Exec) indexByte(s []value, c value) value {
	for i, o := range s {
		if ex.branch(ex.eqv(nil, o, c)) {
			return uint64(i)
		}
	}
	return uint64(^uint64(0)) // -1
}

func (ex *Exec) indexOctets(s, sep []value) int {
	if len(sep) == 0 {
		return 0
	}
	for i := 0; i+len(sep) <= len(s); i++ {
		if ex.branch(ex.octetsEq(s[i:i+len(sep)], sep)) {
			return i
		}
	}
	return -1
}

func asciiConcrete(o []value) bool {
	for _, x := range o {
		u, ok := x.(uint64)
		if !ok || u >= 0x80 {
			return false
		}
	}
	return true
}

// upperOctet maps a-z to A-Z on one octet (term-level, no fork).
func (ex *Exec) upperOctet(o value) value {
	if u, ok := o.(uint64); ok {
		if u >= 'a' && u <= 'z' {
			return u - 32
		}
		return u
	}
	c := ex.ctx
	t := o.(*sym.Term)
	isLower := c.And(c.Cmp(sym.OpUle, c.BV('a', 8), t), c.Cmp(sym.OpUle, t, c.BV('z', 8)))
	return norm(c.Ite(isLower, c.Bin(sym.OpSub, t, c.BV(32, 8)), t))
}

func (ex *Exec) lowerOctet(o value) value {
	if u, ok := o.(uint64); ok {
		if u >= 'A' && u <= 'Z' {
			return u + 32
		}
		return u
	}
	c := ex.ctx
	t := o.(*sym.Term)
	isUpper := c.And(c.Cmp(sym.OpUle, c.BV('A', 8), t), c.Cmp(sym.OpUle, t, c.BV('Z', 8)))
	return norm(c.Ite(isUpper, c.Bin(sym.OpAdd, t, c.BV(32, 8)), t))
}

// caseMap implements strings.ToUpper/ToLower. Concrete strings use the real
// function. Symbolic strings: the all-ASCII case is a per-octet ite term;
// a string that may contain an octet >= 0x80 forks once on "all ASCII", and
// the non-ASCII side is outside the stated bound (ends the path as
// inconclusive unless the harness assumed ASCII).
func (ex *Exec) caseMap(fr *frame, s value, upper bool) value {
	if cs, ok := s.(string); ok {
		if upper {
			return strings.ToUpper(cs)
		}
		return strings.ToLower(cs)
	}
	o := ex.strOctets(s)
	var allASCII value = true
	for _, x := range o {
		allASCII = ex.andv(allASCII, ex.ltConst(x, 0x80))
	}
	if !ex.branch(allASCII) {
		return ex.caseMapSlow(o, upper)
	}
	out := make([]value, len(o))
	for i, x := range o {
		if upper {
			out[i] = ex.upperOctet(x)
		} else {
			out[i] = ex.lowerOctet(x)
		}
	}
	return mkStr(out)
}

// caseMapSlow handles strings with non-ASCII octets: each rune is decoded;
// ASCII runes are mapped, invalid UTF-8 becomes U+FFFD (as strings.Map does),
// and a valid non-ASCII rune whose case mapping is the identity is copied.
// Runes with a non-identity mapping need the Unicode tables: concrete runes
// use them, symbolic ones end the path as inconclusive.
func (ex *Exec) caseMapSlow(o []value, upper bool) value {
	var out []value
	for i := 0; i < len(o); {
		r, w := ex.decodeRune(o, i)
		if u, ok := r.(uint64); ok {
			var m string
			if upper {
				m = strings.ToUpper(string(rune(uint32(u))))
			} else {
				m = strings.ToLower(string(rune(uint32(u))))
			}
			if u == 0xFFFD && w == 1 {
				m = "�"
			}
			if u < 0x80 && w == 1 {
				if upper {
					out = append(out, ex.upperOctet(o[i]))
				} else {
					out = append(out, ex.lowerOctet(o[i]))
				}
			} else {
				for k := 0; k < len(m); k++ {
					out = append(out, uint64(m[k]))
				}
			}
			i += w
			continue
		}
		if w == 1 {
			// symbolic ASCII octet
			if upper {
				out = append(out, ex.upperOctet(o[i]))
			} else {
				out = append(out, ex.lowerOctet(o[i]))
			}
			i++
			continue
		}
		// a symbolic non-ASCII rune: exact mapping from unicode.CaseRanges as
		// an ite chain, re-encoded (the encoded length may change: fork)
		m := ex.caseRune(r.(*sym.Term), upper)
		out = append(out, ex.strOctets(ex.runeToString(m))...)
		i += w
	}
	return mkStr(out)
}

// caseRune maps a symbolic rune (known to be >= 0x80 and valid) through
// unicode.ToUpper / ToLower: the first CaseRange containing it decides, as in
// unicode.to().
func (ex *Exec) caseRune(r *sym.Term, upper bool) value {
	c := ex.ctx
	which := unicode.LowerCase
	if upper {
		which = unicode.UpperCase
	}
	bv := func(v int64) *sym.Term { return c.BV(uint64(uint32(int32(v))), 32) }
	res := r
	crs := unicode.CaseRanges
	for i := len(crs) - 1; i >= 0; i-- {
		cr := crs[i]
		if cr.Hi < 0x80 {
			continue
		}
		delta := cr.Delta[which]
		var mapped *sym.Term
		if delta > unicode.MaxRune {
			// alternating Upper/Lower sequence
			off := c.Bin(sym.OpSub, r, bv(int64(cr.Lo)))
			cleared := c.Bin(sym.OpBAnd, off, c.BNot(bv(1)))
			mapped = c.Bin(sym.OpAdd, bv(int64(cr.Lo)), c.Bin(sym.OpBOr, cleared, bv(int64(which&1))))
		} else if delta == 0 {
			mapped = r
		} else {
			mapped = c.Bin(sym.OpAdd, r, bv(int64(delta)))
		}
		in := c.And(c.Cmp(sym.OpUle, bv(int64(cr.Lo)), r), c.Cmp(sym.OpUle, r, bv(int64(cr.Hi))))
		res = c.Ite(in, mapped, res)
	}
	return norm(res)
}

func (ex *Exec) nondetOctets(maxv value) []value {
	max := int(maxv.(uint64))
	lv := harnessAPI["nondetInt"](ex, nil, []value{uint64(0), uint64(max)})
	n := int(ex.concretize(lv, max+1, "nondet length"))
	out := make([]value, n)
	for i := range out {
		out[i] = ex.newNondet("u8", 8)
	}
	return out
}

func (ex *Exec) obsString(v value) string {
	if i, ok := v.(iface); ok {
		if i.t == nil {
			return "<nil>"
		}
		k := basicKind(i.t)
		if k.cls == clsInt {
			if u, ok := i.v.(uint64); ok {
				if k.signed {
					return fmt.Sprint(sextW(u, k.w))
				}
				return fmt.Sprint(int64(u))
			}
		}
		if m := ex.methodOf(i.t, "Error"); m != nil && m.Signature.Params().Len() == 0 {
			if p, isPtr := i.v.(*value); !isPtr || p != nil {
				s := ex.call(ex.cur.fr, m, []value{i.v})
				return ex.obsString(s)
			}
		}
		return ex.obsString(i.v)
	}
	switch v := v.(type) {
	case string:
		return strconv.Quote(v)
	case uint64:
		return fmt.Sprint(int64(v))
	case bool:
		return fmt.Sprint(v)
	case []value:
		allb := true
		bs := make([]byte, len(v))
		for i, e := range v {
			u, ok := e.(uint64)
			if !ok || u > 255 {
				allb = false
				break
			}
			bs[i] = byte(u)
		}
		if allb {
			return strconv.Quote(string(bs))
		}
	}
	return toString(v)
}

// ---- errors.Is / errors.As over engine values ------------------------------

func (ex *Exec) methodOf(t types.Type, name string) *ssa.Function {
	ms := ex.prog.SSA.MethodSets.MethodSet(t)
	for i := 0; i < ms.Len(); i++ {
		sel := ms.At(i)
		if sel.Obj().Name() == name {
			return ex.prog.SSA.MethodValue(sel)
		}
	}
	return nil
}

func (ex *Exec) unwrap(fr *frame, err iface) (iface, bool) {
	if err.t == nil {
		return iface{}, false
	}
	m := ex.methodOf(err.t, "Unwrap")
	if m == nil {
		return iface{}, false
	}
	sig := m.Signature
	if sig.Params().Len() != 0 || sig.Results().Len() != 1 {
		return iface{}, false
	}
	r := ex.call(fr, m, []value{err.v})
	if ri, ok := r.(iface); ok {
		return ri, ri.t != nil
	}
	return iface{}, false
}

func (ex *Exec) errorsIs(fr *frame, err, target iface) value {
	if err.t == nil || target.t == nil {
		return err.t == nil && target.t == nil
	}
	comparable := types.Comparable(target.t)
	for {
		if comparable && sameType(err.t, target.t) && ex.branch(ex.eqv(err.t, err.v, target.v)) {
			return true
		}
		if m := ex.methodOf(err.t, "Is"); m != nil {
			if r := ex.call(fr, m, []value{err.v, target}); ex.branch(r) {
				return true
			}
		}
		next, ok := ex.unwrap(fr, err)
		if !ok {
			return false
		}
		err = next
	}
}

func (ex *Exec) errorsAs(fr *frame, err, target iface) value {
	if err.t == nil {
		return false
	}
	ptr, ok := target.t.Underlying().(*types.Pointer)
	if !ok {
		ex.rtPanic("errors: target must be a non-nil pointer")
	}
	want := ptr.Elem()
	cell := target.v.(*value)
	for {
		if _, isIface := want.Underlying().(*types.Interface); isIface {
			if m, _ := types.MissingMethod(err.t, want.Underlying().(*types.Interface), true); m == nil {
				*cell = err
				return true
			}
		} else if types.Identical(err.t, want) {
			*cell = err.v
			return true
		}
		next, ok := ex.unwrap(fr, err)
		if !ok {
			return false
		}
		err = next
	}
}
