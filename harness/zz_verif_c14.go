package smtp

import (
	"io"
	"time"
)

// verifValidScalar: r is a Unicode scalar value.
func verifValidScalar(r rune) bool {
	return r >= 0 && r <= 0x10FFFF && !(r >= 0xD800 && r <= 0xDFFF)
}

func verifIsXtextSafe(s string) bool {
	for i := 0; i < len(s); i++ {
		if s[i] < '!' || s[i] > '~' || s[i] == '=' {
			return false
		}
	}
	return true
}

// verif_C14_xtext: xtext (RFC 3461) encode/decode are exact inverses on all of
// 7-bit ASCII, and the encoded form is wire-safe (printable, no space, no '=').
func verif_C14_xtext() {
	n := verifBound(2, 3)
	s := nondetString(n)
	for i := 0; i < len(s); i++ {
		assume(s[i] < 0x80)
	}
	enc := encodeXtext(s)
	dec, err := decodeXtext(enc)
	verifObserve("xtext", s, enc, dec, err == nil)
	verifAssert(verifIsXtextSafe(enc), "C14.xtext-wire-safe")
	verifAssert(err == nil, "C14.xtext-decodes")
	verifAssert(dec == s, "C14.xtext-roundtrip")
	verifReach("C14.xtext-end")
}

// verif_C14_rune: one arbitrary Unicode scalar in a fixed context through each
// of the three address codecs and the server's decoder.
func verif_C14_rune() {
	r := nondetRune()
	assume(verifValidScalar(r))
	s := "a" + string(r) + "+"
	which := verifChoice(3)
	if which != 2 {
		// domain of the UTF-8 address forms per the statement: printable ASCII
		// or non-ASCII UTF-8 text (C0 controls and DEL are outside)
		assume(r >= 0x20 && r != 0x7f)
	}
	var enc string
	switch which {
	case 0:
		enc = encodeUTF8AddrXtext(s)
		verifAssert(verifIsXtextSafe(enc), "C14.utf8-addr-xtext-wire-safe")
	case 1:
		enc = encodeUTF8AddrUnitext(s)
		for i := 0; i < len(enc); i++ {
			verifAssert(enc[i] > ' ' && enc[i] != '=' && enc[i] != 0x7f, "C14.utf8-addr-unitext-wire-safe")
		}
	case 2:
		assume(r < 0x80)
		enc = encodeXtext(s)
		dec, err := decodeXtext(enc)
		verifObserve("rune-xtext", int(r), enc, dec, err == nil)
		verifAssert(err == nil && dec == s, "C14.xtext-roundtrip-scalar")
		verifReach("C14.rune-xtext")
		return
	}
	dec, err := decodeUTF8AddrXtext(enc)
	verifObserve("rune", int(r), which, enc, dec, err == nil)
	verifAssert(err == nil, "C14.utf8-addr-decodes")
	verifAssert(dec == s, "C14.utf8-addr-roundtrip")
	verifReach("C14.rune-end")
}

// verif_C14_trip: the whole trip. Client.Mail / Client.Rcpt build their command
// line from an option struct whose fields are chosen by the harness (subset of
// fields symbolic; one string-valued option carries an arbitrary Unicode
// scalar in a printable context); that very line is served by a go-smtp server
// with the corresponding extensions enabled; the options the backend receives
// must equal the ones given to the client.
func verif_C14_trip() {
	r := nondetRune()
	assume(verifValidScalar(r) && r >= 0x20 && r != 0x7f)
	utf8srv := nondetBool()
	isMail := nondetBool()
	ext := map[string]string{"8BITMIME": "", "SIZE": "", "DSN": "", "AUTH": "", "REQUIRETLS": "", "RRVS": ""}
	if utf8srv {
		ext["SMTPUTF8"] = ""
	}
	be := &vbackend{}
	srv, _ := verifServer(be)
	srv.EnableDSN, srv.EnableREQUIRETLS, srv.EnableSMTPUTF8, srv.EnableRRVS = true, true, utf8srv, true
	var line []byte
	var cerr error
	authNonASCII := false
	var mo MailOptions
	var ro RcptOptions
	if isMail {
		if nondetBool() {
			mo.Size = int64(nondetInt(1, 999))
		}
		mo.RequireTLS = nondetBool()
		mo.UTF8 = utf8srv && nondetBool()
		switch verifChoice(3) {
		case 1:
			mo.Return = DSNReturnFull
		case 2:
			mo.Return = DSNReturnHeaders
		}
		switch verifChoice(3) {
		case 1:
			// ENVID: printable ASCII per the statement
			assume(r <= 0x7e)
			mo.EnvelopeID = "e" + string(r) + "="
		case 2:
			// AUTH: a mailbox whose local part carries the scalar: an atext
			// character (the 7-bit domain of xtext), or ANY non-ASCII scalar
			// - which the client may refuse locally (xtext cannot carry it),
			// but must not send in a form the server reads as something else
			assume((r <= 0x7e && verifIsAtext(byte(r))) || r >= 0x80)
			a := "u" + string(r) + "@h"
			mo.Auth = &a
			authNonASCII = r >= 0x80
		}
		if nondetBool() && mo.Auth == nil {
			e := ""
			mo.Auth = &e
		}
		c, vc := verifClient("250 2.0.0 ok\r\n", ext)
		cerr = c.Mail("s@v", &mo)
		line = vc.out
	} else {
		switch verifChoice(4) {
		case 1:
			ro.Notify = []DSNNotify{DSNNotifyNever}
		case 2:
			ro.Notify = []DSNNotify{DSNNotifySuccess, DSNNotifyFailure}
		case 3:
			ro.Notify = []DSNNotify{DSNNotifyDelayed, DSNNotifyFailure, DSNNotifySuccess}
		}
		switch verifChoice(5) {
		case 1:
			assume(r <= 0x7e)
			ro.OriginalRecipientType = DSNAddressTypeRFC822
			ro.OriginalRecipient = "o" + string(r) + "+@h"
		case 2:
			ro.OriginalRecipientType = DSNAddressTypeUTF8
			ro.OriginalRecipient = "o" + string(r) + "\\@h"
		case 3, 4:
			// a '+' followed by two ARBITRARY printable octets (what would be
			// a hexchar if the value were decoded once too often)
			d1, d2 := nondetByte(), nondetByte()
			assume(d1 > ' ' && d1 < 0x7f && d2 > ' ' && d2 < 0x7f)
			ro.OriginalRecipientType = DSNAddressTypeUTF8
			if verifChoice(2) == 1 {
				ro.OriginalRecipientType = DSNAddressTypeRFC822
			}
			ro.OriginalRecipient = "o+" + string([]byte{d1, d2}) + "@h"
		}
		// RRVS: a concrete corpus of timestamps (to the second)
		switch verifChoice(verifBound(2, 3)) {
		case 1:
			ro.RequireRecipientValidSince = time.Date(2014, 4, 3, 23, 1, 0, 0, time.UTC)
		case 2:
			ro.RequireRecipientValidSince = time.Date(1970, 1, 1, 0, 0, 1, 0, time.UTC)
		}
		c, vc := verifClient("250 2.0.0 ok\r\n", ext)
		cerr = c.Rcpt("r@v", &ro)
		line = vc.out
	}
	if authNonASCII && cerr != nil {
		// refused locally with nothing sent: not accepted, nothing to survive
		verifReach("C14.trip-auth-non-ascii-refused-locally")
		verifAssert(len(line) == 0, "C14.refused-envelope-writes-nothing")
		return
	}
	verifAssert(cerr == nil, "C14.client-accepts-envelope")
	if cerr != nil {
		return
	}
	in := []byte("EHLO c\r\n")
	if !isMail {
		in = append(in, "MAIL FROM:<s@v>\r\n"...)
	}
	in = append(in, line...)
	vc, _, _ := verifServe(srv, in, io.EOF)
	k := 2
	if !isMail {
		k = 3
	}
	code := verifNthReplyCode(vc.out, k)
	verifObserve("c14t", int(r), utf8srv, isMail, line, code)
	verifAssert(code == 250, "C14.server-accepts-what-the-client-sent")
	if code != 250 {
		return
	}
	if isMail {
		verifReach("C14.trip-mail")
		got := verifLastMailOpts(be)
		verifAssert(got != nil && be.find("Mail", "s@v") >= 0, "C14.trip-mail-called")
		if got == nil {
			return
		}
		verifAssert(got.Size == mo.Size && got.RequireTLS == mo.RequireTLS && got.UTF8 == mo.UTF8 && got.Return == mo.Return && got.EnvelopeID == mo.EnvelopeID, "C14.mail-options-survive")
		verifAssert((got.Auth == nil) == (mo.Auth == nil), "C14.mail-auth-presence-survives")
		if got.Auth != nil && mo.Auth != nil {
			verifAssert(*got.Auth == *mo.Auth, "C14.mail-auth-survives")
		}
	} else {
		verifReach("C14.trip-rcpt")
		got := verifLastRcptOpts(be)
		verifAssert(got != nil && be.find("Rcpt", "r@v") >= 0, "C14.trip-rcpt-called")
		if got == nil {
			return
		}
		verifAssert(got.OriginalRecipientType == ro.OriginalRecipientType && got.OriginalRecipient == ro.OriginalRecipient, "C14.orcpt-survives")
		verifAssert(got.RequireRecipientValidSince.Equal(ro.RequireRecipientValidSince), "C14.rrvs-survives")
		verifAssert(len(got.Notify) == len(ro.Notify), "C14.notify-length-survives")
		if len(got.Notify) == len(ro.Notify) {
			for i := range ro.Notify {
				verifAssert(got.Notify[i] == ro.Notify[i], "C14.notify-survives")
			}
		}
	}
}

// verif_C14_sequence: options belong to the call they were given to. Two
// recipients (and two transactions) on one connection, the first with options,
// the second with none - or the other way round: what the backend sees for
// each MAIL / RCPT is exactly what the client was given for that one.
func verif_C14_sequence() {
	ext := map[string]string{"DSN": "", "SIZE": ""}
	firstHas := nondetBool()
	ro := &RcptOptions{Notify: []DSNNotify{DSNNotifyFailure}, OriginalRecipientType: DSNAddressTypeRFC822, OriginalRecipient: "o@p"}
	mo := &MailOptions{Size: 7, Return: DSNReturnHeaders, EnvelopeID: "id1"}
	var r1, r2 *RcptOptions
	var m1, m2 *MailOptions
	if firstHas {
		r1, m1 = ro, mo
	} else {
		r2, m2 = ro, mo
	}
	c, vc := verifClient("250 2.0.0 ok\r\n250 2.0.0 ok\r\n250 2.0.0 ok\r\n250 2.0.0 ok\r\n", ext)
	verifAssert(c.Mail("s1@v", m1) == nil && c.Rcpt("x@v", r1) == nil && c.Rcpt("y@v", r2) == nil, "C14.sequence-first-transaction")
	verifAssert(c.Reset() == nil, "C14.sequence-reset")
	// (Reset makes the client greet again)
	vc.in = append(vc.in, "250-srv\r\n250-DSN\r\n250 SIZE\r\n250 2.0.0 ok\r\n"...)
	verifAssert(c.Mail("s2@v", m2) == nil, "C14.sequence-second-mail")
	be := &vbackend{}
	s, _ := verifServer(be)
	s.EnableDSN = true
	verifServe(s, append([]byte("EHLO c\r\n"), vc.out...), io.EOF)
	verifObserve("c14seq", firstHas, be.count("Mail"), be.count("Rcpt"))
	verifAssert(be.count("Mail") == 2 && be.count("Rcpt") == 2 && be.lastSession != nil, "C14.sequence-arrives")
	if be.count("Mail") != 2 || be.count("Rcpt") != 2 || be.lastSession == nil {
		return
	}
	ls := be.lastSession
	plainRcpt := func(o *RcptOptions) bool {
		return o == nil || (len(o.Notify) == 0 && o.OriginalRecipient == "" && o.OriginalRecipientType == "" && o.RequireRecipientValidSince.IsZero())
	}
	fullRcpt := func(o *RcptOptions) bool {
		return o != nil && len(o.Notify) == 1 && o.Notify[0] == DSNNotifyFailure && o.OriginalRecipient == "o@p" && o.OriginalRecipientType == DSNAddressTypeRFC822
	}
	plainMail := func(o *MailOptions) bool {
		return o == nil || (o.Size == 0 && o.Return == "" && o.EnvelopeID == "" && o.Body == "" && o.Auth == nil && !o.UTF8 && !o.RequireTLS)
	}
	fullMail := func(o *MailOptions) bool {
		return o != nil && o.Size == 7 && o.Return == DSNReturnHeaders && o.EnvelopeID == "id1" && o.Body == ""
	}
	if firstHas {
		verifAssert(fullRcpt(ls.rcptOpts[0]) && plainRcpt(ls.rcptOpts[1]), "C14.sequence-rcpt-options-belong-to-their-recipient")
		verifAssert(fullMail(ls.mailOpts[0]) && plainMail(ls.mailOpts[1]), "C14.sequence-mail-options-belong-to-their-transaction")
	} else {
		verifAssert(plainRcpt(ls.rcptOpts[0]) && fullRcpt(ls.rcptOpts[1]), "C14.sequence-rcpt-options-belong-to-their-recipient")
		verifAssert(plainMail(ls.mailOpts[0]) && fullMail(ls.mailOpts[1]), "C14.sequence-mail-options-belong-to-their-transaction")
	}
	verifReach("C14.sequence-end")
}

// verif_C14_retry: a Mail call with options that the server's backend REFUSES,
// retried at once - no Reset in between - with fewer options: the backend of
// the real server observes, for the second call, exactly the options of the
// second call.
func verif_C14_retry() {
	ext := map[string]string{"DSN": "", "SIZE": "", "SMTPUTF8": ""}
	m1 := &MailOptions{Size: 4096, UTF8: true, Return: DSNReturnFull, EnvelopeID: "first"}
	var m2 *MailOptions
	switch verifChoice(3) {
	case 1:
		m2 = &MailOptions{}
	case 2:
		m2 = &MailOptions{EnvelopeID: "second"}
	}
	c, vc := verifClient("550 5.1.0 not now\r\n250 2.0.0 ok\r\n", ext)
	verifAssert(c.Mail("s@v", m1) != nil, "C14.retry-first-mail-refused")
	verifAssert(c.Mail("s@v", m2) == nil, "C14.retry-second-mail-accepted")
	be := &vbackend{}
	n := 0
	be.mailErr = func(string) error {
		n++
		if n == 1 {
			return &SMTPError{Code: 550, EnhancedCode: EnhancedCode{5, 1, 0}, Message: "not now"}
		}
		return nil
	}
	s, _ := verifServer(be)
	s.EnableDSN, s.EnableSMTPUTF8 = true, true
	verifServe(s, append([]byte("EHLO c\r\n"), vc.out...), io.EOF)
	verifAssert(be.count("Mail") == 2 && be.lastSession != nil && len(be.lastSession.mailOpts) == 2, "C14.retry-both-arrive")
	if be.count("Mail") != 2 || be.lastSession == nil || len(be.lastSession.mailOpts) != 2 {
		return
	}
	got := be.lastSession.mailOpts[1]
	wantID := ""
	if m2 != nil {
		wantID = m2.EnvelopeID
	}
	verifObserve("c14retry", wantID, got != nil)
	verifAssert(got != nil && got.Size == 0 && !got.UTF8 && got.Return == "" && got.EnvelopeID == wantID && got.Auth == nil && !got.RequireTLS, "C14.retry-second-call-observed-with-its-own-options")
	verifReach("C14.retry-end")
}
