#!/bin/bash
# usage: try_seed.sh <patch> <ID> [<ID>...]  - applies the patch to /repo, runs the quick checks, undoes it
PATCH=$1; shift
cd /repo && git apply "$PATCH" || { echo "patch does not apply to /repo"; exit 2; }
for id in "$@"; do
  echo "--- check $id"
  (cd /verif && VERIF_BUDGET_S=${VERIF_BUDGET_S:-280} timeout 900 ./bin/check $id --tier ${TIER:-quick} 2>&1 | grep -E "^(VIOLATION|OK|INCONCLUSIVE|violation)" | cut -c1-260 | head -6)
done
cd /repo && git checkout -q -- . && git status --short | head -3
