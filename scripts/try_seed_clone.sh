#!/bin/bash
# usage: try_seed_clone.sh <patch> <ID> [<ID>...]
# Like try_seed.sh but on a scratch clone of /repo (outside /repo and /verif), so that
# it can run while other checks are reading /repo. The clone is removed afterwards.
PATCH=$1; shift
R=/tmp/seedrepo.$$
rm -rf $R; git clone -q /repo $R || exit 2
cd $R && git apply "$PATCH" || { echo "patch does not apply"; rm -rf $R; exit 2; }
for id in "$@"; do
  echo "--- check $id (clone)"
  (cd /verif && VERIF_REPO=$R VERIF_BUDGET_S=${VERIF_BUDGET_S:-280} timeout 900 ${CHECK:-./bin/check} $id --tier ${TIER:-quick} 2>&1 | grep -E "^(VIOLATION|OK|INCONCLUSIVE|violation)" | cut -c1-260 | head -6)
done
rm -rf $R
