package smtp

import (
	"io"
	"net"
)

// verif_C07_data_cut: a DATA conversation with arbitrary body octets is cut at
// an arbitrary byte offset; then the connection ends with EOF, a timeout or
// "use of closed connection". Oracle: the backend's reader may report EOF only
// if the complete message, through its end marker, was inside the delivered
// prefix; otherwise its final error is non-nil and not EOF and no positive
// final reply is written.
func verif_C07_data_cut() {
	L := verifBound(3, 4)
	msg := nondetBytesN(L)
	lmtp := nondetBool()
	perRcpt := false
	if lmtp {
		perRcpt = nondetBool()
	}
	hello := "EHLO c\r\n"
	if lmtp {
		hello = "LHLO c\r\n"
	}
	head := hello + "MAIL FROM:<s@v>\r\nRCPT TO:<r@v>\r\nDATA\r\n"
	stream := append(append([]byte{}, msg...), "\r\n.\r\n"...)
	in := append([]byte(head), stream...)
	cut := nondetInt(len(head), len(in))
	var final error
	switch verifChoice(3) {
	case 0:
		final = io.EOF
	case 1:
		final = verifTimeoutErr{}
	case 2:
		final = net.ErrClosed
	}
	var got []byte
	var rerr error
	called := false
	be := &vbackend{lmtpSession: perRcpt}
	consume := func(r io.Reader) error {
		called = true
		got, rerr = verifReadAll(r, 3)
		if rerr == io.EOF {
			return nil
		}
		return rerr
	}
	be.dataFn = func(_ *vsession, r io.Reader) error { return consume(r) }
	be.lmtpFn = func(_ *vsession, r io.Reader, _ StatusCollector) error { return consume(r) }
	s, _ := verifServer(be)
	s.LMTP = lmtp
	vc, _, _ := verifServe(s, in[:cut], final)

	delivered := in[len(head):cut]
	body, _, complete := refUnstuff(delivered)
	verifAssert(called, "C07.data-called")
	reps, wf := verifParseReplies(vc.out)
	verifAssert(wf, "C07.replies-wellformed")
	// replies: greeting, hello, mail, rcpt, 354, [final...]
	positives := 0
	for i := 5; i < len(reps); i++ {
		if reps[i].code/100 == 2 {
			positives++
		}
	}
	verifObserve("c07", msg, cut, lmtp, perRcpt, complete, rerr == io.EOF, len(got), positives)
	if complete {
		verifReach("C07.complete")
		verifAssert(rerr == io.EOF, "C07.complete-message-ends-with-eof")
		verifAssert(string(got) == string(body), "C07.complete-message-intact")
	} else {
		verifReach("C07.incomplete")
		verifAssert(rerr != nil && rerr != io.EOF, "C07.incomplete-message-never-eof")
		verifAssert(positives == 0, "C07.incomplete-message-no-positive-reply")
		verifAssert(verifIsPrefix(got, body), "C07.partial-octets-are-a-prefix")
	}
	verifAssert(verifGoroutinesAlive() == 0, "C07.no-goroutine-left")
}
