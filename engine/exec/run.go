package exec

import (
	"fmt"
	"go/token"
	"go/types"
	"os"
	"path/filepath"
	"sort"
	"strings"
	"sync"
	"time"

	"golang.org/x/tools/go/packages"
	"golang.org/x/tools/go/ssa"
	"golang.org/x/tools/go/ssa/ssautil"

	"verif/gosym/sym"
)

// DefaultAllow lists the packages whose functions are executed from their
// real SSA. Everything else must be an intrinsic or ends the path as
// inconclusive.
var DefaultAllow = []string{
	"bufio", "io", "io/ioutil", "errors", "net/textproto", "strings", "strconv", "bytes",
	"unicode/utf8", "encoding/base64", "encoding/binary", "sort", "slices", "math/bits", "math",
	"sync", "sync/atomic", "time", "context", "internal/bytealg", "internal/itoa",
	"github.com/emersion/go-sasl", "internal/stringslite", "unicode", "cmp", "internal/byteorder",
	"net/url", "encoding/hex", "path", "maps", "unicode/utf16", "container/list",
}

// AllowFiles: source files of packages that are otherwise reached only through
// intrinsics whose functions are executed from their real SSA.
var AllowFiles = map[string]map[string]bool{"fmt": {"scan.go": true, "errors.go": true}}

// AllowFuncs: pure helpers of those packages that the allowed files call.
var AllowFuncs = map[string]bool{"fmt.parsenum": true, "fmt.tooLarge": true}

// NoInit: allowed packages whose initialisers are NOT executed (they touch
// the OS or CPU feature detection); their functions used by the encoded code
// do not depend on package-level state, or are intrinsics.
var NoInit = []string{"time", "sync", "sync/atomic", "internal/bytealg"}

// Load type-checks and builds SSA for the package in dir, with extra files
// injected by overlay (virtual path -> content).
func Load(dir string, overlay map[string][]byte) (*Program, error) {
	fset := token.NewFileSet()
	cfg := &packages.Config{
		Mode: packages.NeedName | packages.NeedFiles | packages.NeedCompiledGoFiles | packages.NeedImports |
			packages.NeedDeps | packages.NeedTypes | packages.NeedSyntax | packages.NeedTypesInfo | packages.NeedTypesSizes,
		Dir:     dir,
		Fset:    fset,
		Overlay: overlay,
		Env:     append(os.Environ(), "GOFLAGS=-mod=mod", "GOPROXY=off", "GOSUMDB=off", "GOTOOLCHAIN=local", "CGO_ENABLED=0"),
	}
	pkgs, err := packages.Load(cfg, ".")
	if err != nil {
		return nil, err
	}
	if len(pkgs) != 1 {
		return nil, fmt.Errorf("expected one package, got %d", len(pkgs))
	}
	var errs []string
	packages.Visit(pkgs, nil, func(p *packages.Package) {
		for _, e := range p.Errors {
			errs = append(errs, e.Error())
		}
	})
	if len(errs) > 0 {
		if len(errs) > 10 {
			errs = errs[:10]
		}
		return nil, fmt.Errorf("package errors:\n%s", strings.Join(errs, "\n"))
	}
	prog, spkgs := ssautil.AllPackages(pkgs, ssa.InstantiateGenerics)
	prog.Build()
	p := &Program{Fset: fset, SSA: prog, Pkg: spkgs[0], AllowPkgs: map[string]bool{}, infos: map[*ssa.Function]*funcInfo{}}
	for _, a := range DefaultAllow {
		p.AllowPkgs[a] = true
	}
	p.AllowPkgs[spkgs[0].Pkg.Path()] = true
	rt := prog.ImportedPackage("runtime")
	if rt == nil {
		return nil, fmt.Errorf("runtime package not loaded")
	}
	p.runtimeErrorString = rt.Type("errorString").Object().Type()
	p.InitPkgs = map[string]bool{spkgs[0].Pkg.Path(): true}
	for _, a := range DefaultAllow {
		p.InitPkgs[a] = true
	}
	for a := range AllowFiles {
		p.InitPkgs[a] = true
	}
	for _, a := range NoInit {
		delete(p.InitPkgs, a)
	}
	return p, nil
}

// Harnesses returns the names of harness functions for a property id, sorted.
func (p *Program) Harnesses(prefix string) []string {
	var out []string
	for name, m := range p.Pkg.Members {
		if f, ok := m.(*ssa.Function); ok && strings.HasPrefix(name, prefix) && f.Signature.Params().Len() == 0 {
			out = append(out, name)
		}
	}
	sort.Strings(out)
	return out
}

// ReachLabels statically collects the constant labels passed to verifReach in
// the harness and the harness-file functions it can call.
func (p *Program) ReachLabels(harness string) []string {
	root := p.Pkg.Func(harness)
	seen := map[*ssa.Function]bool{}
	labels := map[string]bool{}
	var walk func(f *ssa.Function)
	isHarnessFile := func(f *ssa.Function) bool {
		pos := f.Pos()
		if !pos.IsValid() {
			if f.Parent() != nil {
				pos = f.Parent().Pos()
			}
		}
		if !pos.IsValid() {
			return false
		}
		return strings.HasPrefix(filepath.Base(p.Fset.Position(pos).Filename), "zz_verif")
	}
	walk = func(f *ssa.Function) {
		if f == nil || seen[f] || f.Blocks == nil {
			return
		}
		seen[f] = true
		if !isHarnessFile(f) {
			return
		}
		for _, b := range f.Blocks {
			for _, in := range b.Instrs {
				switch in := in.(type) {
				case ssa.CallInstruction:
					c := in.Common()
					if sc := c.StaticCallee(); sc != nil {
						if sc.Name() == "verifReach" && len(c.Args) == 1 {
							if k, ok := c.Args[0].(*ssa.Const); ok {
								labels[constValue(k).(string)] = true
							}
						}
						walk(sc)
					}
					for _, a := range c.Args {
						if mc, ok := a.(*ssa.MakeClosure); ok {
							walk(mc.Fn.(*ssa.Function))
						}
						if fn, ok := a.(*ssa.Function); ok {
							walk(fn)
						}
					}
				case *ssa.MakeClosure:
					walk(in.Fn.(*ssa.Function))
				}
			}
		}
		for _, af := range f.AnonFuncs {
			walk(af)
		}
	}
	walk(root)
	// methods of harness types are reached dynamically: include every
	// function in harness files that the harness's own file defines? Keep it
	// simple: labels inside methods must be listed by calling verifExpect.
	var out []string
	for l := range labels {
		out = append(out, l)
	}
	sort.Strings(out)
	return out
}

// Config for one harness exploration.
type Config struct {
	Harness      string
	Tier         int
	Workers      int
	KnownIDs     []string
	MaxSteps     int64
	MaxPaths     int64
	PreemptBound int
	SolverKind   string
	TimeoutMs    int
	Deadline     time.Time
	Solver2Kind  string
	NoFastPath   bool
	CrossCheck   bool
	WitnessMode  bool // treat verifReach as assert(false) to extract reachability witnesses
	Log          func(string)
}

type Sample struct {
	Decisions string   `json:"decisions"`
	Inputs    []uint64 `json:"inputs"`
	Kinds     []string `json:"kinds"`
	Observes  []string `json:"observes,omitempty"`
	Outcome   string   `json:"outcome"`
}

type Report struct {
	Harness            string
	Paths              int64
	Completed          int64
	Pruned             int64
	Inconclusive       map[string]int
	Violations         []Violation
	Reached            map[string]int
	Branches           int64
	Choices            int64
	AssertsSolver      int64
	AssertsConcrete    int64
	Steps              int64
	SolverSat          int
	SolverUnsat        int
	SolverUnknown      int
	SolverTime         time.Duration
	SolverErrors       []string
	Funcs              map[string]int
	FuncInstr          map[string]int
	Samples            []Sample
	Wall               time.Duration
	Truncated          bool
	PanicEvents        map[string]int
	Races              map[string]int
	MaxPending         int
	FastDecided        int64
	Solver2Queries     int64
	Solver2Unknown     int64
	Solver2Time        time.Duration
	UnlistedViolations int
	KnownViolations    int
	Witnesses          map[string]Violation
}

// Explore runs the harness over every feasible path (depth-first over
// decision vectors, Workers executors in parallel, one solver process each).
func Explore(p *Program, cfg Config) *Report {
	t0 := time.Now()
	rep := &Report{Harness: cfg.Harness, Inconclusive: map[string]int{}, Reached: map[string]int{},
		Funcs: map[string]int{}, FuncInstr: map[string]int{}, PanicEvents: map[string]int{}, Races: map[string]int{}, Witnesses: map[string]Violation{}}
	fn := p.Pkg.Func(cfg.Harness)
	if fn == nil {
		rep.Inconclusive["no such harness "+cfg.Harness]++
		return rep
	}
	if cfg.Workers <= 0 {
		cfg.Workers = 1
	}
	if cfg.SolverKind == "" {
		cfg.SolverKind = "z3"
	}
	if cfg.TimeoutMs == 0 {
		cfg.TimeoutMs = 20000
	}
	var mu sync.Mutex
	cond := sync.NewCond(&mu)
	stack := [][]Decision{nil}
	raceSeen := map[string]bool{}
	active := 0
	stop := false
	var wg sync.WaitGroup
	for w := 0; w < cfg.Workers; w++ {
		wg.Add(1)
		go func(w int) {
			defer wg.Done()
			solver, err := sym.NewSolver(cfg.SolverKind, cfg.TimeoutMs)
			if err != nil {
				mu.Lock()
				rep.Inconclusive["cannot start solver: "+err.Error()]++
				stop = true
				cond.Broadcast()
				mu.Unlock()
				return
			}
			defer solver.Close()
			ex := NewExec(p, solver)
			if cfg.Solver2Kind != "" {
				s2, err := sym.NewSolver(cfg.Solver2Kind, 3000)
				if err == nil {
					ex.solver2 = s2
					defer s2.Close()
				} else {
					mu.Lock()
					rep.Inconclusive["cannot start second solver: "+err.Error()]++
					mu.Unlock()
				}
			}
			ex.Tier = cfg.Tier
			if cfg.MaxSteps > 0 {
				ex.MaxSteps = cfg.MaxSteps
			}
			ex.PreemptBoundDefault = cfg.PreemptBound
			ex.WitnessMode = cfg.WitnessMode
			ex.FastPath = !cfg.NoFastPath
			ex.CrossCheck = cfg.CrossCheck
			for _, id := range cfg.KnownIDs {
				ex.knownIDs[id] = true
			}
			for {
				mu.Lock()
				for len(stack) == 0 && active > 0 && !stop {
					cond.Wait()
				}
				if stop || (len(stack) == 0 && active == 0) {
					cond.Broadcast()
					mu.Unlock()
					break
				}
				prefix := stack[len(stack)-1]
				stack = stack[:len(stack)-1]
				active++
				mu.Unlock()

				res := ex.RunPath(fn, prefix)

				mu.Lock()
				active--
				rep.Paths++
				rep.Steps += res.Steps
				rep.Branches += int64(res.Branches)
				rep.Choices += int64(res.Choices)
				rep.AssertsSolver += int64(res.AssertsSolver)
				rep.AssertsConcrete += int64(res.AssertsConcrete)
				for l := range res.Reached {
					rep.Reached[l]++
				}
				for _, pe := range res.PanicEvents {
					rep.PanicEvents[pe]++
				}
				for _, r := range res.Races {
					rep.Races[r]++
				}
				outcome := "completed"
				if res.Aborted {
					switch res.AbortKind {
					case abortAssume:
						rep.Pruned++
						outcome = "pruned: " + res.Reason
					case abortEndPath, abortDeadlock:
						rep.Completed++
						outcome = "ended: " + res.Reason
					default:
						rep.Inconclusive[res.Reason]++
						outcome = "inconclusive: " + res.Reason
					}
				} else {
					rep.Completed++
				}
				for _, v := range res.Violations {
					if strings.HasPrefix(v.Label, "race:") {
						// monitor reports: one per distinct (field, reader, writer)
						if !raceSeen[v.Label] {
							raceSeen[v.Label] = true
							rep.Violations = append(rep.Violations, v)
						}
						continue
					}
					if v.Unlisted {
						rep.UnlistedViolations++
						rep.Violations = append(rep.Violations, v)
					} else {
						rep.KnownViolations++
						if rep.KnownViolations <= 50 {
							rep.Violations = append(rep.Violations, v)
						}
					}
				}
				for _, w := range res.Witnesses {
					if _, ok := rep.Witnesses[w.Label]; !ok {
						rep.Witnesses[w.Label] = w
					}
				}
				if len(rep.Samples) < 5 || (len(res.Violations) > 0 && len(rep.Samples) < 12) {
					rep.Samples = append(rep.Samples, Sample{Decisions: fmtDecisions(res.Trace), Inputs: res.SampleInputs,
						Kinds: res.SampleKinds, Observes: res.Observes, Outcome: outcome})
				}
				// push alternatives (LIFO => depth-first)
				for i := len(res.Pending) - 1; i >= 0; i-- {
					stack = append(stack, res.Pending[i])
				}
				if len(stack) > rep.MaxPending {
					rep.MaxPending = len(stack)
				}
				if cfg.MaxPaths > 0 && rep.Paths >= cfg.MaxPaths && (len(stack) > 0 || active > 0) {
					rep.Truncated = true
					stop = true
				}
				if !cfg.Deadline.IsZero() && time.Now().After(cfg.Deadline) && (len(stack) > 0 || active > 0) {
					rep.Truncated = true
					stop = true
				}
				if rep.UnlistedViolations > 50 {
					rep.Truncated = true
					stop = true
				}
				cond.Broadcast()
				mu.Unlock()
			}
			mu.Lock()
			rep.SolverSat += solver.NSat
			rep.SolverUnsat += solver.NUnsat
			rep.SolverUnknown += solver.NUnknown
			rep.SolverTime += solver.Time
			rep.SolverErrors = append(rep.SolverErrors, solver.Errors...)
			for f, n := range ex.funcsSeen {
				name := f.String()
				rep.Funcs[name] += n
				rep.FuncInstr[name] = p.info(f).nInstr
			}
			rep.FastDecided += ex.FastDecided
			rep.Solver2Queries += ex.Solver2Queries
			rep.Solver2Unknown += ex.Solver2Unknown
			if ex.solver2 != nil {
				rep.Solver2Time += ex.solver2.Time
			}
			for name, n := range ex.intrinsicsSeen {
				rep.Funcs["intrinsic:"+name] += n
			}
			mu.Unlock()
		}(w)
	}
	wg.Wait()
	if rep.Truncated {
		rep.Inconclusive["exploration truncated (path/time/violation limit)"]++
	}
	rep.Wall = time.Since(t0)
	return rep
}

// RunPath executes the harness once along the given decision prefix.
func (ex *Exec) RunPath(fn *ssa.Function, prefix []Decision) (res PathResult) {
	ex.beginPath(prefix)
	ex.pathGlobals = map[*ssa.Global]*value{}
	ex.pathInited = map[*ssa.Package]bool{}
	ex.sideTab = map[*value]interface{}{}
	ex.dead = false
	ex.pendingAbort = nil
	ex.hb = nil
	ex.MapRev = false
	ex.PreemptBound = ex.PreemptBoundDefault
	ex.SchedForkBound = 4 + 2*ex.Tier
	ex.clock = 0
	ex.sleeps = nil
	main := &goroutine{id: 0, wake: make(chan struct{}), exited: make(chan struct{}), started: true}
	main.vc.set(0, 1)
	ex.gs = []*goroutine{main}
	ex.cur = main
	defer func() {
		if p := recover(); p != nil {
			res.Aborted = true
			switch p := p.(type) {
			case pathAbort:
				res.AbortKind, res.Reason = p.kind, p.reason
				if p.kind == abortDeadlock {
					ex.violationNow("deadlock", p.reason)
				}
			case targetPanic:
				res.AbortKind, res.Reason = abortEndPath, "unrecovered panic: "+panicString(p.v)
				ex.ps.panics = append(ex.ps.panics, "unrecovered: "+panicString(p.v))
				ex.violationNow("unrecovered-panic", panicString(p.v))
			default:
				res.AbortKind, res.Reason = abortInconclusive, fmt.Sprintf("engine panic: %v", p)
			}
		} else if ex.ps.pos < len(ex.ps.prefix) {
			res.Aborted = true
			res.AbortKind, res.Reason = abortInconclusive, "engine: replay prefix not consumed (non-deterministic re-execution)"
		}
		ex.teardown()
		res.Trace = ex.ps.trace
		res.Pending = ex.ps.pending
		res.Violations = ex.ps.viol
		res.Reached = ex.ps.reached
		res.Observes = ex.ps.observes
		res.Steps = ex.ps.steps
		res.Branches = ex.ps.branches
		res.Choices = ex.ps.choices
		res.AssertsSolver = ex.ps.assertsS
		res.AssertsConcrete = ex.ps.assertsC
		res.PanicEvents = ex.ps.panics
		res.Witnesses = ex.ps.witnesses
		if ex.hb != nil {
			res.Races = ex.hb.races
			for _, r := range ex.hb.races {
				if !ex.raceReported[r] {
					ex.raceReported[r] = true
					ex.violationNow(r, "happens-before monitor")
				}
			}
			res.Violations = ex.ps.viol
		}
		if !ex.ps.pinMode && res.AbortKind != abortInconclusive {
			// a model of the path for the samples
			if ex.ps.sampleWanted {
				if r, m := ex.solver.ModelWith(ex.allVars()); r == sym.Sat {
					res.SampleInputs, res.SampleKinds = ex.modelInputs(m)
				}
			}
		}
		ex.endPath()
	}()
	ex.ps.sampleWanted = ex.sampleCount < 12
	ex.sampleCount++
	ex.ensureInit(ex.prog.Pkg)
	ex.call(nil, fn, nil)
	return
}

// violationNow records a violation at the current point of the path (used
// for deadlocks and unrecovered panics).
func (ex *Exec) violationNow(label, detail string) {
	if ex.ps.pinMode {
		ex.ps.viol = append(ex.ps.viol, Violation{Label: label, Pos: detail, Unlisted: true})
		return
	}
	r, m := ex.solver.ModelWith(ex.allVars())
	if r != sym.Sat {
		return
	}
	v := Violation{Label: label, Pos: detail, Unlisted: true}
	v.Inputs, v.Kinds = ex.modelInputs(m)
	v.Sched = ex.schedChoices()
	v.Spawned = len(ex.gs) > 1
	v.Trace = append([]Decision(nil), ex.ps.trace...)
	v.Observes = append([]string(nil), ex.ps.observes...)
	// known findings registered on the path
	var listed []*sym.Term
	for _, kc := range ex.ps.knowns {
		if !ex.knownIDs[kc.id] {
			continue
		}
		kt := ex.termOf(kc.cond, 0)
		if ex.solver.CheckWith(kt) == sym.Sat {
			v.Known = append(v.Known, kc.id)
		}
		listed = append(listed, kt)
	}
	if len(listed) > 0 {
		rr, m2 := ex.solver.ModelWith(ex.allVars(), ex.ctx.Not(ex.ctx.OrAll(listed...)))
		if rr == sym.Unsat {
			v.Unlisted = false
		} else if rr == sym.Sat {
			v.Inputs, v.Kinds = ex.modelInputs(m2)
		}
	}
	ex.ps.viol = append(ex.ps.viol, v)
}

// RunPinned executes the harness with every nondet pinned to a concrete value
// (translator validation, counterexample confirmation inside the engine).
func (ex *Exec) RunPinned(fn *ssa.Function, vals []uint64, sched []uint64) PathResult {
	ex.pinNext = &pinSpec{vals: vals, sched: sched}
	return ex.RunPath(fn, nil)
}

type pinSpec struct {
	vals  []uint64
	sched []uint64
}

func typesString(t types.Type) string { return t.String() }

func (r PathResult) IsInconclusive() bool {
	return r.Aborted && (r.AbortKind == abortInconclusive || r.AbortKind == abortBudgetSteps)
}

// RunPinnedOnce runs a harness with all inputs pinned, in a fresh executor.
func RunPinnedOnce(p *Program, harness string, vals, sched []uint64, tier int) PathResult {
	solver, err := sym.NewSolver("z3", 20000)
	if err != nil {
		return PathResult{Aborted: true, AbortKind: abortInconclusive, Reason: err.Error()}
	}
	defer solver.Close()
	ex := NewExec(p, solver)
	ex.Tier = tier
	ex.PreemptBoundDefault = 1 << 20
	fn := p.Pkg.Func(harness)
	if fn == nil {
		return PathResult{Aborted: true, AbortKind: abortInconclusive, Reason: "no such harness"}
	}
	return ex.RunPinned(fn, vals, sched)
}
