package smtp

import (
	"crypto/tls"
	"errors"
	"io"
)

// ---------------------------------------------------------------------------
// C03: every history of k commands over the abstract alphabet, sent lock-step
// through the real connection loop, with backend verdicts chosen by the
// harness. Oracle: a reference transaction state machine written from RFC
// 5321 §4.1.4 as the property phrases it; it predicts the exact callback
// sequence and the reply class of every command.

const (
	vcEHLO = iota
	vcHELO
	vcLHLO
	vcMAIL
	vcMAILbad
	vcRCPT
	vcRCPT2
	vcRCPTbad
	vcDATA
	vcDATAarg
	vcRSET
	vcNOOP
	vcVRFY
	vcQUIT
	vcUNKNOWN
	vcSTARTTLS
	vcAUTH
	vcEHLOnoarg
	vcBDAT
	vcBDATbig
	vcBDAT0
	vcBDATpart
	vcNumCmds
)

// the chunk that follows each BDAT command of the alphabet; Server.MaxMessageBytes
// is verifC03Limit in the C03 harnesses, so the second one is refused for its size
const verifC03Limit = 5

var verifCmdPayload = map[int]string{vcBDAT: "hi", vcBDATbig: "123456789", vcBDATpart: "hi"}

var verifCmdText = [...]string{
	vcEHLO: "EHLO c.example", vcHELO: "HELO c.example", vcLHLO: "LHLO c.example",
	vcMAIL: "MAIL FROM:<a@v>", vcMAILbad: "MAIL FROM:<a", vcRCPT: "RCPT TO:<b@v>", vcRCPT2: "RCPT TO:<c@v>",
	vcRCPTbad: "RCPT TO:<>", vcDATA: "DATA", vcDATAarg: "DATA now", vcRSET: "RSET", vcNOOP: "NOOP", vcVRFY: "VRFY x",
	vcQUIT: "QUIT", vcUNKNOWN: "FROB x", vcSTARTTLS: "STARTTLS", vcAUTH: "AUTH PLAIN", vcEHLOnoarg: "EHLO",
	vcBDAT: "BDAT 2 LAST", vcBDATbig: "BDAT 9 LAST", vcBDAT0: "BDAT 0", vcBDATpart: "BDAT 2",
}

type vexpect struct {
	kind string
	arg  string
}

// vref is the reference model of one connection.
type vref struct {
	lmtp     bool
	maxRcpt  int
	greeted  bool
	mail     bool
	rcpts    int
	errs     int
	closed   bool
	expected []vexpect
	sess     int
	xfer     bool // a chunked transfer is open (at least one non-LAST chunk accepted)
	recv     int  // octets accepted in it so far
	consumed bool // the last step consumed a backend verdict
}

func verifErrBackend() error {
	return &SMTPError{Code: 550, EnhancedCode: EnhancedCode{5, 7, 1}, Message: "no"}
}

// step predicts the reply class (first digit) of command cmd given the
// backend's verdict for the callback it triggers (accept).
func (r *vref) step(cmd int, accept bool) (class int) {
	r.consumed = false
	greet := func() int {
		if r.greeted {
			r.expected = append(r.expected, vexpect{"Reset", ""})
			r.mail, r.rcpts = false, 0
			r.xfer, r.recv = false, 0
			return 2
		}
		r.consumed = true
		if !accept {
			r.expected = append(r.expected, vexpect{"NewSession", "err"})
			return 5
		}
		r.expected = append(r.expected, vexpect{"NewSession", ""})
		r.greeted = true
		return 2
	}
	perr := func() int {
		r.errs++
		if r.errs > 3 {
			if r.greeted {
				r.expected = append(r.expected, vexpect{"Logout", ""})
			}
			r.closed = true
		}
		return 5
	}
	switch cmd {
	case vcEHLO, vcHELO:
		if r.lmtp {
			return 5
		}
		return greet()
	case vcLHLO:
		if !r.lmtp {
			return 5
		}
		return greet()
	case vcEHLOnoarg:
		if r.lmtp {
			return 5
		}
		return 5
	case vcMAIL:
		if !r.greeted || r.xfer {
			return 5
		}
		r.consumed = true
		r.expected = append(r.expected, vexpect{"Mail", "a@v"})
		if !accept {
			return 5
		}
		r.mail = true
		return 2
	case vcMAILbad:
		return 5
	case vcRCPT, vcRCPT2:
		if !r.mail || r.xfer {
			return 5
		}
		if r.maxRcpt > 0 && r.rcpts >= r.maxRcpt {
			return 4
		}
		r.consumed = true
		a := "b@v"
		if cmd == vcRCPT2 {
			a = "c@v"
		}
		r.expected = append(r.expected, vexpect{"Rcpt", a})
		if !accept {
			return 5
		}
		r.rcpts++
		return 2
	case vcRCPTbad:
		return 5
	case vcDATA:
		if !r.mail || r.rcpts == 0 || r.xfer {
			return 5
		}
		r.consumed = true
		r.expected = append(r.expected, vexpect{"Data", ""})
		r.expected = append(r.expected, vexpect{"Reset", ""})
		r.mail, r.rcpts = false, 0
		if !accept {
			return 5
		}
		return 2
	case vcDATAarg:
		return 5
	case vcBDAT, vcBDATbig, vcBDAT0, vcBDATpart:
		if !r.mail || r.rcpts == 0 {
			return 5
		}
		size := map[int]int{vcBDAT: 2, vcBDATbig: 9, vcBDAT0: 0, vcBDATpart: 2}[cmd]
		last := cmd == vcBDAT || cmd == vcBDATbig
		if r.recv+size > verifC03Limit {
			// over the size limit: a failed chunk ends the transaction; the
			// backend (if the delivery had started) sees its reader fail
			r.expected = append(r.expected, vexpect{"Reset", ""})
			r.mail, r.rcpts = false, 0
			r.xfer, r.recv = false, 0
			return 5
		}
		if !r.xfer {
			// the first chunk starts the delivery
			r.expected = append(r.expected, vexpect{"Data", ""})
		}
		r.recv += size
		if !last {
			r.xfer = true
			return 2
		}
		r.consumed = true
		r.expected = append(r.expected, vexpect{"Reset", ""})
		r.mail, r.rcpts = false, 0
		r.xfer, r.recv = false, 0
		if !accept {
			return 5
		}
		return 2
	case vcRSET:
		if r.greeted {
			r.expected = append(r.expected, vexpect{"Reset", ""})
		}
		r.mail, r.rcpts = false, 0
		r.xfer, r.recv = false, 0
		return 2
	case vcNOOP, vcVRFY:
		return 2
	case vcQUIT:
		if r.greeted {
			r.expected = append(r.expected, vexpect{"Logout", ""})
		}
		r.closed = true
		return 2
	case vcUNKNOWN:
		return perr()
	case vcSTARTTLS:
		return 5
	case vcAUTH:
		// backend without AUTH support, plaintext: refused one way or another
		return 5
	}
	return 0
}

func verifWithoutData(tr []vevent) []vevent {
	var out []vevent
	for _, e := range tr {
		if e.kind != "Data" {
			out = append(out, e)
		}
	}
	return out
}

func verifExpectWithoutData(ex []vexpect) []vexpect {
	var out []vexpect
	for _, e := range ex {
		if e.kind != "Data" {
			out = append(out, e)
		}
	}
	return out
}

func verif_C03_run() { verifC03run(nil, verifBound(3, 4)) }

// verif_C03_run_open: the same, starting inside an open transaction (greeting,
// MAIL and one RCPT already accepted), so that histories of the same length
// reach chunked transfers and what may and may not happen inside them.
func verif_C03_run_open() { verifC03run([]int{vcEHLO, vcMAIL, vcRCPT}, verifBound(2, 3)) }

func verifC03run(prefix []int, k int) {
	verifPreemptBound(0)
	verifSchedForkBound(0)
	k += len(prefix)
	lmtp := nondetBool()
	maxRcpt := 0
	if nondetBool() {
		maxRcpt = 1
	}
	be := &vbackend{}
	accepts := []bool{}
	verdict := func() error {
		acc := nondetBool()
		accepts = append(accepts, acc)
		if acc {
			return nil
		}
		return verifErrBackend()
	}
	be.mailErr = func(string) error { return verdict() }
	be.rcptErr = func(string) error { return verdict() }
	be.dataFn = func(_ *vsession, r io.Reader) error {
		_, e := verifReadAll(r, 16)
		if e != io.EOF {
			return errors.New("verif: data reader failed")
		}
		return verdict()
	}
	s, lg := verifServer(be)
	s.LMTP = lmtp
	s.MaxRecipients = maxRcpt
	s.MaxMessageBytes = verifC03Limit

	ref := &vref{lmtp: lmtp, maxRcpt: maxRcpt}
	cmds := []int{}
	replyStart := []int{}
	sent := 0
	vc := &vconn{final: io.EOF}
	pendingBody := false
	vc.script = func(c *vconn) bool {
		if pendingBody {
			pendingBody = false
			// lock-step client: send the body only after 354
			n := len(c.out)
			if n >= 4 && c.out[n-1] == '\n' {
				// find start of last line
				j := n - 2
				for j > 0 && c.out[j-1] != '\n' {
					j--
				}
				if c.out[j] == '3' {
					c.in = append(c.in, "hi\r\n.\r\n"...)
					return true
				}
			}
		}
		if sent >= k || c.closed {
			return false
		}
		var cmd int
		if sent < len(prefix) {
			cmd = prefix[sent]
			if lmtp && cmd == vcEHLO {
				cmd = vcLHLO
			}
		} else {
			cmd = verifChoice(vcNumCmds)
		}
		cmds = append(cmds, cmd)
		replyStart = append(replyStart, len(c.out))
		sent++
		c.in = append(c.in, verifCmdText[cmd]...)
		c.in = append(c.in, "\r\n"...)
		c.in = append(c.in, verifCmdPayload[cmd]...)
		if cmd == vcDATA {
			pendingBody = true
		}
		return true
	}
	// NewSession verdict
	newSessAccept := nondetBool()
	if !newSessAccept {
		be.newSessionErr = verifErrBackend()
	}
	c := newConn(vc, s)
	s.handleConn(c)
	verifSettle()

	// replay the history through the reference
	ai := 0
	for i, cmd := range cmds {
		if ref.closed {
			verifAssert(false, "C03.command-accepted-after-close")
			break
		}
		acc := true
		switch cmd {
		case vcEHLO, vcHELO, vcLHLO:
			acc = newSessAccept
		case vcMAIL, vcRCPT, vcRCPT2, vcDATA, vcBDAT, vcBDATbig, vcBDAT0, vcBDATpart:
			// consumes a verdict iff the reference says the callback's verdict is asked for
			probe := *ref
			probe.expected = append([]vexpect{}, ref.expected...)
			probe.step(cmd, true)
			if probe.consumed {
				if ai < len(accepts) {
					acc = accepts[ai]
				}
				ai++
			}
		}
		class := ref.step(cmd, acc)
		// reply of this command: first digit of the *last* reply line written for it
		end := len(vc.out)
		if i+1 < len(replyStart) {
			end = replyStart[i+1]
		}
		seg := vc.out[replyStart[i]:end]
		reps, wf := verifParseReplies(seg)
		verifAssert(wf && len(reps) >= 1, "C03.reply-present")
		if wf && len(reps) >= 1 {
			got := reps[len(reps)-1].code / 100
			if ref.closed && cmd == vcUNKNOWN {
				// closing notice follows the 500
				got = reps[0].code / 100
			}
			verifAssert(got == class, "C03.reply-class-matches-reference")
		}
	}
	verifAssert(ai == len(accepts), "C03.backend-consulted-exactly-when-legal")
	// final Logout when the peer disconnects with a live session
	if !ref.closed && ref.greeted {
		ref.expected = append(ref.expected, vexpect{"Logout", ""})
	}
	// compare callback sequences
	verifObserve("c03", lmtp, maxRcpt, len(cmds), len(be.trace), len(ref.expected))
	// (the delivery of a chunked transfer runs beside the command loop: where
	// its Data call falls among the other callbacks is not fixed, that it
	// happens - once per transfer - is)
	got, want := verifWithoutData(be.trace), verifExpectWithoutData(ref.expected)
	verifAssert(len(be.trace)-len(got) == len(ref.expected)-len(want), "C03.data-call-count-matches-reference")
	verifAssert(len(got) == len(want), "C03.callback-count-matches-reference")
	if len(got) == len(want) {
		for i, e := range got {
			x := want[i]
			ok := e.kind == x.kind
			if ok && (x.kind == "Mail" || x.kind == "Rcpt") {
				ok = e.arg == x.arg
			}
			if ok && x.kind == "NewSession" {
				ok = (x.arg == "err") == (e.err != nil)
			}
			verifAssert(ok, "C03.callback-sequence-matches-reference")
		}
	}
	// the greeting name and TLS state seen inside NewSession
	for _, h := range be.helloSeen {
		verifAssert(h == "c.example", "C03.newsession-sees-greeting-name")
	}
	// state invariant at the end (connection closed => nothing to check)
	if !ref.closed {
		verifAssert(c.fromReceived == ref.mail && len(c.recipients) == ref.rcpts, "C03.envelope-state-matches-reference")
		verifAssert((c.helo != "") == ref.greeted, "C03.greeting-state-matches-reference")
	}
	verifAssert(lg.lines == 0, "C03.no-logged-errors")
	verifReach("C03.end")
}

// verif_C03_starttls_stub: STARTTLS ends the whole session. A transaction open
// at upgrade time must not survive: after the inside-TLS EHLO, RCPT / DATA /
// BDAT without a new MAIL are refused and cause no callback.
func verif_C03_starttls_stub() {
	verifPreemptBound(0)
	pre := verifChoice(3) // 0 greeted, 1 MAIL, 2 MAIL+RCPT
	be := &vbackend{}
	s, _ := verifServer(be)
	s.TLSConfig = &tls.Config{}
	plain := "EHLO p.example\r\n"
	if pre >= 1 {
		plain += "MAIL FROM:<early@v>\r\n"
	}
	if pre >= 2 {
		plain += "RCPT TO:<r@v>\r\n"
	}
	plain += "STARTTLS\r\n"
	probe := verifChoice(3)
	helloFirst := nondetBool()
	inside := ""
	if helloFirst {
		inside = "EHLO i.example\r\n"
	}
	inside += []string{"RCPT TO:<late@v>\r\n", "DATA\r\n", "BDAT 1 LAST\r\nx"}[probe]
	inside += "NOOP\r\n"
	vc := &vconn{in: []byte(plain), final: io.EOF, tlsIn: []byte(inside), tlsFinal: io.EOF}
	conn := newConn(vc, s)
	s.handleConn(conn)
	verifSettle()
	ireps, wf := verifParseReplies(vc.tlsOut)
	k := 0
	if helloFirst {
		k = 1
	}
	verifAssert(wf && len(ireps) == k+2, "C03.starttls-inside-replies")
	if !wf || len(ireps) != k+2 {
		return
	}
	verifObserve("c03tls", pre, probe, helloFirst, ireps[k].code, len(be.trace))
	verifAssert(ireps[k].code/100 == 5, "C03.no-transaction-survives-starttls")
	verifAssert(ireps[k+1].code == 250, "C03.command-mode-after-refusal")
	// after the upgrade nothing but NewSession/Logout/Reset may reach the backend
	lo := -1
	for i, e := range be.trace {
		if e.kind == "Logout" && e.sess == 1 && lo < 0 {
			lo = i
		}
	}
	verifAssert(lo >= 0, "C03.starttls-logs-out")
	if lo >= 0 {
		for _, e := range be.trace[lo+1:] {
			verifAssert(e.kind == "NewSession" || e.kind == "Logout" || e.kind == "Reset", "C03.no-envelope-callback-after-starttls")
		}
	}
	verifReach("C03.starttls-end")
}

// verifTraceOrder checks the callback order session object by session object,
// without any model of the server: nothing on a session before its NewSession or
// after its Logout, at most one Logout, Mail/Rcpt/Data in transaction order
// (Rcpt only after an accepted Mail, Data only after an accepted Rcpt, both since
// the last Reset or completed Data on that very session). Returns "" or the name
// of the rule that is broken.
func verifTraceOrder(trace []vevent) string {
	type st struct {
		live, out, mail bool
		rcpts           int
	}
	ss := map[int]*st{}
	for _, e := range trace {
		if e.kind == "NewSession" {
			if e.err == nil {
				ss[e.sess] = &st{live: true}
			}
			continue
		}
		x := ss[e.sess]
		if x == nil {
			return "callback-on-unknown-session"
		}
		if x.out {
			if e.kind == "Logout" {
				return "second-logout"
			}
			if e.kind == "Data" || e.kind == "LMTPData" {
				return "delivery-begins-after-logout"
			}
			return "callback-after-logout"
		}
		switch e.kind {
		case "Logout":
			x.out = true
		case "Reset":
			x.mail, x.rcpts = false, 0
		case "Mail":
			if e.err == nil {
				x.mail = true
			}
		case "Rcpt":
			if !x.mail {
				return "rcpt-without-mail-on-this-session"
			}
			if e.err == nil {
				x.rcpts++
			}
		case "Data", "LMTPData":
			if !x.mail || x.rcpts == 0 {
				return "data-without-recipient-on-this-session"
			}
		}
	}
	return ""
}

// verif_C03_failed_starttls_stub: a STARTTLS whose handshake FAILS is answered
// 550 and the connection goes on in plaintext, possibly with a transaction
// open. Whether the server keeps the old session or ends it, the callback
// order holds session object by session object (verifTraceOrder), nothing is
// logged (no recovered panic), every reply is well formed and the connection
// is still in command mode at the end.
func verif_C03_failed_starttls_stub() { verifFailedStartTLS("C03") }

func verifFailedStartTLS(prop string) {
	verifPreemptBound(0)
	pre := verifChoice(3) // 0 greeted, 1 MAIL, 2 MAIL+RCPT
	lmtp := nondetBool()
	be := &vbackend{}
	s, lg := verifServer(be)
	s.LMTP = lmtp
	s.TLSConfig = &tls.Config{}
	hello := "EHLO"
	if lmtp {
		hello = "LHLO"
	}
	in := hello + " p.example\r\n"
	if pre >= 1 {
		in += "MAIL FROM:<early@v>\r\n"
	}
	if pre >= 2 {
		in += "RCPT TO:<r@v>\r\n"
	}
	in += "STARTTLS\r\n"
	// the peer may also simply disconnect when the handshake has failed
	gone := nondetBool()
	reHello := !gone && nondetBool()
	if reHello {
		in += hello + " q.example\r\n"
	}
	probe := verifChoice(4)
	// the DATA probe: if DATA is accepted the NOOP line is the body, if it is
	// refused the NOOP is a command and the lone dot a bad command
	if !gone {
		in += []string{"RCPT TO:<late@v>\r\n", "DATA\r\nNOOP\r\n.\r\n", "BDAT 1 LAST\r\nx", "MAIL FROM:<second@v>\r\nRCPT TO:<late@v>\r\n"}[probe]
		in += "NOOP\r\n"
	}
	vc := &vconn{in: []byte(in), final: io.EOF, tlsFail: true}
	conn := newConn(vc, s)
	s.handleConn(conn)
	verifSettle()
	reps, wf := verifParseReplies(vc.out)
	// (a server that gives the connection up after the failed handshake - the
	// octets that follow are of doubtful meaning - is as good as one that goes
	// on in plaintext: what is demanded below is demanded of a connection
	// that is still open)
	gaveUp := vc.closed
	need := 5 + pre
	if gone || gaveUp {
		need = 3 + pre
	}
	verifAssert(wf && len(reps) >= need, prop+".failed-starttls-replies-well-formed")
	if !wf || len(reps) < need {
		return
	}
	verifObserve("c03ftls", pre, lmtp, gone, reHello, probe, len(reps), len(be.trace), reps[len(reps)-1].code)
	verifAssert(reps[2+pre].code == 220 && (len(reps) <= 3+pre || reps[3+pre].code/100 == 5 || reps[3+pre].code/100 == 4), prop+".failed-handshake-answered-negatively")
	if !gone && !gaveUp {
		verifAssert(reps[len(reps)-1].code == 250, prop+".failed-starttls-command-mode-at-end")
	}
	verifAssert(len(vc.tlsOut) == 0, prop+".failed-starttls-nothing-sent-as-tls")
	rule := verifTraceOrder(be.trace)
	verifObserve("c03ftls-rule", rule)
	verifAssert(rule == "", prop+".failed-starttls-callback-order-per-session")
	verifAssert(lg.lines == 0, prop+".failed-starttls-no-logged-errors")
	// exactly one Logout per session at the end of the connection
	for id := 1; id <= be.sessions; id++ {
		n := 0
		for _, e := range be.trace {
			if e.kind == "Logout" && e.sess == id {
				n++
			}
		}
		verifAssert(n == 1, prop+".failed-starttls-every-session-logged-out-once")
	}
	verifReach(prop + ".failed-starttls-end")
}

// verif_C03_step: ONE command from an ARBITRARY connection state that
// satisfies the invariant
//
//	Inv: (helo != "") == greeted == (session != nil); fromReceived == mail;
//	     len(recipients) == rcpts; rcpts > 0 => mail; mail => greeted;
//	     0 <= errCount <= 3; maxRcpt > 0 => rcpts <= maxRcpt; no transfer open
//
// built directly (not by running a history). The callbacks, the reply class
// and the successor state must be those of the reference model's step from
// the same abstract state, and the successor state satisfies Inv again. With
// the base case (a fresh Conn is the all-false state) this is induction over
// history length: the agreement with the reference holds for histories of
// every length over the alphabet (BDAT/AUTH/STARTTLS states are outside).
func verif_C03_step() {
	verifPreemptBound(0)
	verifSchedForkBound(0)
	lmtp := nondetBool()
	maxRcpt := 0
	if nondetBool() {
		maxRcpt = 2
	}
	greeted := nondetBool()
	mail := greeted && nondetBool()
	rcpts := 0
	if mail {
		rcpts = nondetInt(0, 2)
	}
	errs := nondetInt(0, 3)
	be := &vbackend{}
	acc := nondetBool()
	verdict := func() error {
		if acc {
			return nil
		}
		return verifErrBackend()
	}
	be.mailErr = func(string) error { return verdict() }
	be.rcptErr = func(string) error { return verdict() }
	be.dataFn = func(_ *vsession, r io.Reader) error {
		verifReadAll(r, 16)
		return verdict()
	}
	if !acc {
		be.newSessionErr = verifErrBackend()
	}
	s, lg := verifServer(be)
	s.LMTP = lmtp
	s.MaxRecipients = maxRcpt
	s.MaxMessageBytes = verifC03Limit
	cmd := verifChoice(vcNumCmds)
	vc := &vconn{final: io.EOF}
	if cmd == vcDATA {
		vc.in = []byte("hi\r\n.\r\n")
	}
	vc.in = append(vc.in, verifCmdPayload[cmd]...)
	c := newConn(vc, s)
	if greeted {
		sess := &vsession{b: be, id: 1}
		be.sessions = 1
		be.lastSession = sess
		c.session = sess
		c.helo = "c.example"
	}
	c.fromReceived = mail
	all := []string{"b@v", "c@v"}
	c.recipients = append([]string(nil), all[:rcpts]...)
	if rcpts == 0 && nondetBool() {
		c.recipients = nil
	}
	c.errCount = errs
	ref := &vref{lmtp: lmtp, maxRcpt: maxRcpt, greeted: greeted, mail: mail, rcpts: rcpts, errs: errs}
	class := ref.step(cmd, acc)

	name, arg, perr := parseCmd(verifCmdText[cmd])
	verifAssert(perr == nil, "C03.step-alphabet-parses")
	c.handle(name, arg)

	reps, wf := verifParseReplies(vc.out)
	verifObserve("c03step", lmtp, maxRcpt, greeted, mail, rcpts, errs, acc, cmd, wf, len(reps), len(be.trace))
	verifAssert(wf && len(reps) >= 1 && lg.lines == 0, "C03.step-reply-present")
	if !wf || len(reps) < 1 {
		return
	}
	got := reps[len(reps)-1].code / 100
	if ref.closed && cmd == vcUNKNOWN {
		got = reps[0].code / 100
	}
	verifAssert(got == class, "C03.step-reply-class-matches-reference")
	verifSettle()
	sgot, swant := verifWithoutData(be.trace), verifExpectWithoutData(ref.expected)
	verifAssert(len(be.trace)-len(sgot) == len(ref.expected)-len(swant), "C03.step-data-call-count-matches-reference")
	verifAssert(len(sgot) == len(swant), "C03.step-callback-count-matches-reference")
	if len(sgot) == len(swant) {
		for i, e := range sgot {
			x := swant[i]
			ok := e.kind == x.kind
			if ok && (x.kind == "Mail" || x.kind == "Rcpt") {
				ok = e.arg == x.arg
			}
			verifAssert(ok, "C03.step-callbacks-match-reference")
		}
	}
	if ref.closed {
		verifReach("C03.step-closed")
		verifAssert(vc.closed && c.session == nil, "C03.step-closed-state")
		return
	}
	verifReach("C03.step-open")
	// successor state == reference successor, and Inv holds again
	verifAssert(c.fromReceived == ref.mail && len(c.recipients) == ref.rcpts, "C03.step-envelope-matches-reference")
	verifAssert((c.helo != "") == ref.greeted && (c.session != nil) == ref.greeted, "C03.step-greeting-matches-reference")
	verifAssert(c.errCount == ref.errs && c.errCount <= 3, "C03.step-error-count-matches-reference")
	verifAssert((c.bdatPipe != nil) == ref.xfer && !c.didAuth, "C03.step-transfer-state-matches-reference")
	verifAssert(c.text.R.Buffered() == 0 || cmd == vcDATA && class == 5, "C03.step-chunk-consumed")
	verifAssert(!(ref.rcpts > 0) || ref.mail, "C03.step-inv-rcpts-imply-mail")
	verifAssert(!ref.mail || ref.greeted, "C03.step-inv-mail-implies-greeted")
	verifAssert(maxRcpt == 0 || len(c.recipients) <= maxRcpt, "C03.step-inv-recipient-limit")
	for i, r := range c.recipients {
		if i < rcpts {
			verifAssert(r == all[i], "C03.step-recipient-list-kept")
		} else {
			verifAssert(i == rcpts && (r == "b@v" || r == "c@v"), "C03.step-recipient-appended")
		}
	}
}

// verif_C03_isolation: "envelopes never leak across transactions", with the
// real code as its own oracle. A transaction T2 (2 arbitrary body octets, seven
// shapes incl. DATA, BDAT in one or two chunks, commands out of order, and
// messages over the size limit) is
// run (A) after a first transaction T1 that has ended in one of eleven ways on
// the same connection and (B) on a fresh connection. Everything observable
// from the first octet of T2 on - the number and class of the replies, the
// backend callbacks with their arguments, the message octets the backend reads -
// must be identical.
func verif_C03_isolation() {
	verifPreemptBound(0)
	verifSchedForkBound(0)
	lmtp := nondetBool()
	lmtpSess := lmtp && nondetBool()
	t1 := verifChoice(11)
	t2 := verifChoice(7)
	x, y := nondetByte(), nondetByte()
	assume(x < 0x80 && y < 0x80)
	rejectT1 := nondetBool()
	rejectT2 := nondetBool()
	first := []string{
		"MAIL FROM:<a@v>\r\nRCPT TO:<b@v>\r\nDATA\r\nhi\r\n.\r\n",
		"MAIL FROM:<a@v>\r\nRCPT TO:<b@v>\r\nDATA\r\n12345678\r\n.\r\n",
		"MAIL FROM:<a@v>\r\nRCPT TO:<b@v>\r\nRCPT TO:<c@v>\r\nBDAT 2 LAST\r\nhi",
		"MAIL FROM:<a@v>\r\nRCPT TO:<b@v>\r\nBDAT 9 LAST\r\n123456789",
		"MAIL FROM:<a@v>\r\nRCPT TO:<b@v>\r\nBDAT 2\r\nhiRSET\r\n",
		"MAIL FROM:<a@v>\r\nRCPT TO:<b@v>\r\nBDAT 2\r\nhiBDAT 9 LAST\r\n123456789",
		"MAIL FROM:<a@v> BODY=BINARYMIME\r\nRCPT TO:<b@v>\r\nRSET\r\n",
		"MAIL FROM:<a@v>\r\nRCPT TO:<b@v>\r\nEHLO again\r\n",
		"MAIL FROM:<a@v> SIZE=3\r\nRCPT TO:<b@v>\r\nDATA\r\nhi\r\n.\r\n",
		"MAIL FROM:<a@v>\r\nRCPT TO:<b@v>\r\nMAIL FROM:<rej@v>\r\nRSET\r\n",
		"MAIL FROM:<a@v>\r\nRCPT TO:<b@v>\r\nRCPT TO:<rej@v>\r\nDATA\r\nhi\r\n.\r\n",
	}
	if lmtp {
		first[7] = "MAIL FROM:<a@v>\r\nRCPT TO:<b@v>\r\nLHLO again\r\n"
	}
	xs, ys := string([]byte{x}), string([]byte{y})
	second := []string{
		"MAIL FROM:<s@v>\r\nRCPT TO:<r@v>\r\nDATA\r\n" + xs + ys + "\r\n.\r\n",
		"MAIL FROM:<s@v>\r\nRCPT TO:<r@v>\r\nBDAT 2 LAST\r\n" + xs + ys,
		"MAIL FROM:<s@v>\r\nRCPT TO:<r@v>\r\nBDAT 1\r\n" + xs + "BDAT 1 LAST\r\n" + ys,
		"RCPT TO:<r@v>\r\nDATA\r\nBDAT 1 LAST\r\n" + xs,
		"MAIL FROM:<s@v>\r\nDATA\r\nRCPT TO:<r@v>\r\nDATA\r\n" + xs + ys + "\r\n.\r\n",
		"MAIL FROM:<s@v>\r\nRCPT TO:<r@v>\r\nDATA\r\n" + xs + ys + "345678\r\n.\r\n",
		"MAIL FROM:<s@v>\r\nRCPT TO:<r@v>\r\nBDAT 3\r\n" + xs + ys + "3BDAT 3 LAST\r\n456",
	}
	type obs struct {
		out    []byte
		trace  []vevent
		bodies [][]byte
		errs   []error
	}
	run := func(withFirst bool) obs {
		var o obs
		be := &vbackend{lmtpSession: lmtpSess}
		inT2 := false
		deliver := func(r io.Reader) error {
			mine := inT2
			b, e := verifReadAll(r, 4)
			if mine {
				o.bodies = append(o.bodies, b)
				o.errs = append(o.errs, e)
			}
			if e != io.EOF {
				return e
			}
			if mine && rejectT2 || !mine && rejectT1 {
				return verifErrBackend()
			}
			return nil
		}
		be.dataFn = func(_ *vsession, r io.Reader) error { return deliver(r) }
		be.lmtpFn = func(_ *vsession, r io.Reader, st StatusCollector) error { return deliver(r) }
		refuse := func(a string) error {
			if a == "rej@v" {
				return verifErrBackend()
			}
			return nil
		}
		be.mailErr, be.rcptErr = refuse, refuse
		s, _ := verifServer(be)
		s.LMTP = lmtp
		s.MaxMessageBytes = verifC03Limit
		s.EnableBINARYMIME = true
		vc := &vconn{final: io.EOF}
		stage, mark, tmark := 0, 0, 0
		vc.script = func(c *vconn) bool {
			switch stage {
			case 0:
				if lmtp {
					c.in = append(c.in, "LHLO c\r\n"...)
				} else {
					c.in = append(c.in, "EHLO c\r\n"...)
				}
				if withFirst {
					c.in = append(c.in, first[t1]...)
				}
				stage = 1
				return true
			case 1:
				mark, tmark = len(c.out), len(be.trace)
				inT2 = true
				c.in = append(c.in, second[t2]...)
				c.in = append(c.in, "NOOP\r\n"...)
				stage = 2
				return true
			}
			return false
		}
		c := newConn(vc, s)
		s.handleConn(c)
		verifSettle()
		o.out = vc.out[mark:]
		o.trace = be.trace[tmark:]
		return o
	}
	a := run(true)
	b := run(false)
	verifObserve("c03iso", lmtp, lmtpSess, t1, t2, x, y, rejectT1, rejectT2, len(a.out), len(b.out), len(a.trace), len(b.trace))
	// replies: same number, same class each (the statement fixes the class of a
	// reply, not its text: the wording of a refusal may depend on what was
	// refused before)
	ra, wfa := verifParseReplies(a.out)
	rb, wfb := verifParseReplies(b.out)
	verifAssert(wfa && wfb && len(ra) == len(rb), "C03.isolation-same-reply-count")
	if wfa && wfb && len(ra) == len(rb) {
		for i := range ra {
			verifAssert(ra[i].code/100 == rb[i].code/100, "C03.isolation-same-reply-class")
		}
	}
	verifAssert(len(a.trace) == len(b.trace), "C03.isolation-same-callback-count")
	if len(a.trace) == len(b.trace) {
		for i := range a.trace {
			p, q := a.trace[i], b.trace[i]
			verifAssert(p.kind == q.kind && p.arg == q.arg && (p.err == nil) == (q.err == nil), "C03.isolation-same-callbacks")
		}
	}
	verifAssert(len(a.bodies) == len(b.bodies), "C03.isolation-same-deliveries")
	if len(a.bodies) == len(b.bodies) {
		for i := range a.bodies {
			verifAssert(string(a.bodies[i]) == string(b.bodies[i]) && (a.errs[i] == io.EOF) == (b.errs[i] == io.EOF), "C03.isolation-same-message-octets")
		}
	}
	verifAssert(len(b.out) > 0, "C03.isolation-replies-present")
	verifReach("C03.isolation-end")
}

// verif_C03_greeting_equiv: however the client greeted (EHLO, HELO, either one
// repeated, one after the other, in any letter case), the transaction that
// follows - DATA or BDAT, with a refused recipient and an out-of-order command
// in it - gets the same reply codes and causes the same callbacks as after a
// single EHLO; every repeated greeting is signalled by exactly one Reset and
// creates no second session.
func verif_C03_greeting_equiv() {
	verifPreemptBound(0)
	verifSchedForkBound(0)
	greets := [][]string{
		{"EHLO c.example"}, {"HELO c.example"}, {"ehlo c.example"}, {"Helo c.example"},
		{"EHLO c.example", "EHLO c.example"}, {"HELO c.example", "EHLO c.example"}, {"EHLO c.example", "HELO c.example"},
		{"EHLO c.example", "EHLO d.example", "HELO e.example"},
	}
	g := greets[verifChoice(len(greets))]
	bdat := nondetBool()
	reject := nondetBool()
	body := "DATA\r\nhi\r\n.\r\n"
	if bdat {
		body = "BDAT 2 LAST\r\nhi"
	}
	txn := "RCPT TO:<early@v>\r\nMAIL FROM:<a@v>\r\nRCPT TO:<rej@v>\r\nRCPT TO:<b@v>\r\n" + body + "NOOP\r\n"
	type obs struct {
		codes []int
		calls []string
		sess  int
	}
	run := func(gs []string) obs {
		var o obs
		be := &vbackend{}
		be.rcptErr = func(to string) error {
			if to == "rej@v" {
				return verifErrBackend()
			}
			return nil
		}
		be.dataFn = func(_ *vsession, r io.Reader) error {
			verifReadAll(r, 4)
			if reject {
				return verifErrBackend()
			}
			return nil
		}
		s, _ := verifServer(be)
		in := ""
		for _, x := range gs {
			in += x + "\r\n"
		}
		vc, _, _ := verifServe(s, []byte(in+txn), io.EOF)
		reps, wf := verifParseReplies(vc.out)
		verifAssert(wf && len(reps) > 1+len(gs), "C03.greeting-replies-wellformed")
		if wf && len(reps) > 1+len(gs) {
			for _, r := range reps[1 : 1+len(gs)] {
				verifAssert(r.code == 250, "C03.greeting-accepted")
			}
			for _, r := range reps[1+len(gs):] {
				o.codes = append(o.codes, r.code)
			}
		}
		resets := 0
		started := false
		for _, e := range be.trace {
			if e.kind == "Mail" || e.kind == "Rcpt" || e.kind == "Data" {
				started = true
			}
			if !started {
				if e.kind == "Reset" {
					resets++
				}
				continue
			}
			o.calls = append(o.calls, e.kind+" "+e.arg)
		}
		verifAssert(resets == len(gs)-1, "C03.greeting-repeat-is-one-reset")
		o.sess = be.sessions
		return o
	}
	ref := run([]string{"EHLO c.example"})
	got := run(g)
	verifObserve("c03greet", len(g), bdat, reject, len(ref.codes), len(got.codes), len(ref.calls), len(got.calls))
	verifAssert(got.sess == 1 && ref.sess == 1, "C03.greeting-one-session")
	verifAssert(len(ref.codes) == len(got.codes), "C03.greeting-same-reply-count")
	if len(ref.codes) == len(got.codes) {
		for i := range ref.codes {
			verifAssert(ref.codes[i] == got.codes[i], "C03.greeting-same-reply-codes")
		}
	}
	verifAssert(len(ref.calls) == len(got.calls), "C03.greeting-same-callbacks")
	if len(ref.calls) == len(got.calls) {
		for i := range ref.calls {
			verifAssert(ref.calls[i] == got.calls[i], "C03.greeting-same-callbacks")
		}
	}
	verifReach("C03.greeting-end")
}
