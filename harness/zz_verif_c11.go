package smtp

import (
	"io"
	"strconv"
	"time"
)

const (
	vValid = iota
	vInvalid
	vUnspec
)

func verifIsAlnum(c byte) bool {
	return (c >= 'a' && c <= 'z') || (c >= 'A' && c <= 'Z') || (c >= '0' && c <= '9')
}

func verifIsAtext(c byte) bool {
	if verifIsAlnum(c) {
		return true
	}
	switch c {
	case '!', '#', '$', '%', '&', '\'', '*', '+', '-', '/', '=', '?', '^', '_', '`', '{', '|', '}', '~':
		return true
	}
	return false
}

// refPathClass: an independent, deliberately narrow recogniser for the path
// argument of MAIL/RCPT (RFC 5321 §4.1.2), given without surrounding spaces
// and without parameters.
//
//	valid   = "<" Dot-string "@" LDH-domain ">"            -> mailbox returned
//	          "<" Quoted-string "@" LDH-domain ">" (printable, non-empty)
//	                                      -> the local part's value "@" domain
//	invalid = no '@' at all / '<' without closing '>' / empty local part /
//	          empty domain / an unquoted special or space in the local part /
//	          unterminated quoted string
//	everything else (no '<', source routes, other quoted strings, address literals,
//	odd domain octets, text after '>') is unspecified and not judged.
func refPathClass(s string, isMail bool) (int, string) {
	if isMail && s == "<>" {
		return vValid, ""
	}
	hasAt := false
	for i := 0; i < len(s); i++ {
		if s[i] == '@' {
			hasAt = true
		}
	}
	if !hasAt {
		if isMail && len(s) >= 2 && s[0] == '<' && s[1] == '>' {
			return vUnspec, "" // "<>" followed by text
		}
		return vInvalid, ""
	}
	if len(s) == 0 || s[0] != '<' {
		return vUnspec, ""
	}
	body := s[1:]
	if len(body) > 0 && body[0] == '@' {
		// source route (RFC 5321 A-d-l) or empty local part
		colon := -1
		for i := 0; i < len(body); i++ {
			if body[i] == ':' {
				colon = i
				break
			}
		}
		if colon < 0 {
			return vInvalid, ""
		}
		// narrow validity of the route: "@" LDH *("," "@" LDH)
		route := body[:colon]
		okRoute := true
		i := 0
		for i < len(route) {
			if route[i] != '@' {
				okRoute = false
				break
			}
			i++
			st := i
			for i < len(route) && route[i] != ',' {
				if !verifIsAlnum(route[i]) && route[i] != '-' && route[i] != '.' {
					okRoute = false
				}
				i++
			}
			if i == st {
				okRoute = false
			}
			if i < len(route) {
				i++ // the comma
				if i == len(route) {
					okRoute = false
				}
			}
		}
		if !okRoute {
			return vUnspec, ""
		}
		// the rest must be a plain valid mailbox for the line to be judged
		// (the grammar has ONE optional route: a second '@...:' is not a route)
		if colon+1 < len(body) && body[colon+1] == '@' {
			return vUnspec, ""
		}
		c, mb := refPathClass("<"+body[colon+1:], false)
		if c == vValid {
			return vValid, mb
		}
		return vUnspec, ""
	}
	if len(body) > 0 && body[0] == '"' {
		// quoted string: "never terminated" is definitely invalid; a narrow
		// well-formed one (printable qtextSMTP and quoted-pairs, non-empty,
		// followed by '@' LDH-domain '>') is valid, and the mailbox is its
		// VALUE - the quotes and the backslashes of quoted-pairs are not
		// part of the local part (RFC 5321 section 4.1.2)
		i := 1
		closed := false
		narrow := true
		var val []byte
		for i < len(body) {
			if body[i] == '\\' {
				if i+1 < len(body) {
					if body[i+1] < 32 || body[i+1] > 126 {
						narrow = false
					}
					val = append(val, body[i+1])
				}
				i += 2
				continue
			}
			if body[i] == '"' {
				closed = true
				break
			}
			if body[i] < 32 || body[i] > 126 {
				narrow = false
			}
			val = append(val, body[i])
			i++
		}
		if !closed {
			return vInvalid, ""
		}
		if !narrow || len(val) == 0 || i+1 >= len(body) || body[i+1] != '@' {
			return vUnspec, ""
		}
		rest := body[i+2:]
		if len(rest) < 2 || rest[len(rest)-1] != '>' {
			return vUnspec, ""
		}
		dom := rest[:len(rest)-1]
		okDom := dom[0] != '.' && dom[len(dom)-1] != '.' && dom[0] != '-' && dom[len(dom)-1] != '-'
		for j := 0; j < len(dom); j++ {
			if dom[j] == '.' {
				if j+1 < len(dom) && dom[j+1] == '.' {
					okDom = false
				}
			} else if !verifIsAlnum(dom[j]) && dom[j] != '-' {
				okDom = false
			}
		}
		if okDom {
			return vValid, string(val) + "@" + dom
		}
		return vUnspec, ""
	}
	// dot-string up to the first '@'
	at := 0
	for at < len(body) && body[at] != '@' {
		at++
	}
	local := body[:at]
	for i := 0; i < len(local); i++ {
		switch local[i] {
		case '(', ')', '<', '>', '[', ']', ':', ';', '\\', ',', '"', ' ', '\t':
			return vInvalid, ""
		}
	}
	if len(local) == 0 {
		return vInvalid, ""
	}
	rest := body[at+1:]
	// domain runs to '>' ; a missing '>' is invalid
	gt := -1
	for i := 0; i < len(rest); i++ {
		if rest[i] == '>' {
			gt = i
			break
		}
		if rest[i] == ' ' || rest[i] == '\t' {
			break
		}
	}
	if gt < 0 {
		return vInvalid, ""
	}
	dom := rest[:gt]
	if len(dom) == 0 {
		return vInvalid, ""
	}
	if gt != len(rest)-1 {
		return vUnspec, "" // text glued after '>'
	}
	// narrow validity: dot-string local part, LDH domain
	okLocal := local[0] != '.' && local[len(local)-1] != '.'
	for i := 0; i < len(local); i++ {
		if local[i] == '.' {
			if i+1 < len(local) && local[i+1] == '.' {
				okLocal = false
			}
		} else if !verifIsAtext(local[i]) {
			okLocal = false
		}
	}
	okDom := dom[0] != '.' && dom[len(dom)-1] != '.' && dom[0] != '-' && dom[len(dom)-1] != '-'
	for i := 0; i < len(dom); i++ {
		if dom[i] == '.' {
			if i+1 < len(dom) && dom[i+1] == '.' {
				okDom = false
			}
		} else if !verifIsAlnum(dom[i]) && dom[i] != '-' {
			okDom = false
		}
	}
	if okLocal && okDom {
		return vValid, local + "@" + dom
	}
	return vUnspec, ""
}

const verifPathAlphabet = "<>@\"\\:;,.(a1=+-"

func verifAlphaString(n int) string {
	s := nondetStringN(n)
	for i := 0; i < len(s); i++ {
		ok := false
		for j := 0; j < len(verifPathAlphabet); j++ {
			if s[i] == verifPathAlphabet[j] {
				ok = true
			}
		}
		assume(ok)
	}
	return s
}

// verif_C11_path: MAIL FROM:/RCPT TO: followed by every string of L symbols
// over the alphabet of syntactically significant characters, in three frames
// (bracketed, bare, missing '>').
func verif_C11_path() {
	L := nondetInt(1, verifBound(3, 4))
	x := verifAlphaString(L)
	isMail := nondetBool()
	var s string
	switch verifChoice(3) {
	case 0:
		s = "<" + x + ">"
	case 1:
		s = x
	case 2:
		s = "<" + x
	}
	class, mbox := refPathClass(s, isMail)
	assume(class != vUnspec)
	be := &vbackend{}
	srv, lg := verifServer(be)
	in := "EHLO c\r\n"
	k := 2
	if isMail {
		in += "MAIL FROM:" + s + "\r\n"
	} else {
		in += "MAIL FROM:<pre@v>\r\nRCPT TO:" + s + "\r\n"
		k = 3
	}
	vc, _, _ := verifServe(srv, []byte(in), io.EOF)
	reps, wf := verifParseReplies(vc.out)
	verifAssert(wf && len(reps) == k+1 && lg.lines == 0, "C11.path-replies")
	if !wf || len(reps) != k+1 {
		return
	}
	kind := "Rcpt"
	if isMail {
		kind = "Mail"
	}
	n := 0
	var ev vevent
	for _, e := range be.trace {
		if e.kind == kind && e.arg != "pre@v" {
			n++
			ev = e
		}
	}
	verifObserve("c11p", s, isMail, class, reps[k].code, n)
	if class == vValid {
		verifReach("C11.path-valid")
		verifAssert(reps[k].code == 250, "C11.wellformed-path-accepted")
		verifAssert(n == 1 && ev.arg == mbox, "C11.backend-gets-exact-mailbox")
	} else {
		verifReach("C11.path-invalid")
		verifAssert(reps[k].code/100 == 5, "C11.malformed-path-refused")
		verifAssert(n == 0, "C11.malformed-path-backend-not-called")
	}
}

// verif_C11_template: grammar-derived valid lines with one position replaced
// by an arbitrary octet (all 256 values in one path set).
func verif_C11_template() {
	templates := []string{"<a@b>", "<a.b@c.d>", "<a+b@c-d.e>", "<ab@[1.2]>", "<\"a b\"@c>", "<@x:a@b>", "<>", "<\"a.b\"@c>", "<\"a\\bc\"@d>", "<@x:\"ab\"@c>"}
	t := templates[verifChoice(len(templates))]
	isMail := nondetBool()
	if !isMail {
		assume(t != "<>")
	}
	pos := nondetInt(0, len(t)-1)
	b := []byte(t)
	b[pos] = nondetByte()
	assume(b[pos] != '\n' && b[pos] != ' ' && b[pos] != '\t' && b[pos] != 0)
	assume(b[pos] < 0x80)
	s := string(b)
	class, mbox := refPathClass(s, isMail)
	assume(class != vUnspec)
	be := &vbackend{}
	srv, _ := verifServer(be)
	in := "EHLO c\r\n"
	k := 2
	if isMail {
		in += "MAIL FROM:" + s + "\r\n"
	} else {
		in += "MAIL FROM:<pre@v>\r\nRCPT TO:" + s + "\r\n"
		k = 3
	}
	vc, _, _ := verifServe(srv, []byte(in), io.EOF)
	// (a control octet echoed into the reply is the known echo finding: only
	// the reply code is looked at here)
	code := verifNthReplyCode(vc.out, k)
	kind := "Rcpt"
	if isMail {
		kind = "Mail"
	}
	n := 0
	var ev vevent
	for _, e := range be.trace {
		if e.kind == kind && e.arg != "pre@v" {
			n++
			ev = e
		}
	}
	verifObserve("c11t", s, isMail, class, code, n)
	if class == vValid {
		verifReach("C11.template-valid")
		verifAssert(code == 250 && n == 1 && ev.arg == mbox, "C11.template-valid-accepted-exact")
	} else {
		verifReach("C11.template-invalid")
		verifAssert(code/100 == 5 && n == 0, "C11.template-invalid-refused")
	}
}

// verifNthReplyCode: the code of the n-th (0-based) reply, scanning lines
// leniently (only "ddd " / "ddd-" at line starts are interpreted).
func verifNthReplyCode(out []byte, n int) int {
	idx := 0
	st := 0
	for i := 0; i < len(out); i++ {
		if out[i] != '\n' {
			continue
		}
		line := out[st:i]
		st = i + 1
		if len(line) >= 4 && line[3] == ' ' && line[0] >= '0' && line[0] <= '9' && line[1] >= '0' && line[1] <= '9' && line[2] >= '0' && line[2] <= '9' {
			if idx == n {
				return int(line[0]-'0')*100 + int(line[1]-'0')*10 + int(line[2]-'0')
			}
			idx++
		}
	}
	return 0
}

func verifHexVal(c byte) int {
	switch {
	case c >= '0' && c <= '9':
		return int(c - '0')
	case c >= 'A' && c <= 'F':
		return int(c-'A') + 10
	}
	return -1
}

// refXtext: independent RFC 3461 xtext decoder. class: vValid (well-formed:
// xchars and "+" 2 upper-case HEXDIG), vInvalid ('+' not followed by two such
// digits, or '='), vUnspec (a literal octet outside 33..126).
func refXtext(v string) (int, string) {
	out := []byte{}
	unspec := false
	for i := 0; i < len(v); i++ {
		c := v[i]
		if c == '+' {
			if i+2 > len(v)-1 {
				return vInvalid, ""
			}
			h, l := verifHexVal(v[i+1]), verifHexVal(v[i+2])
			if h < 0 || l < 0 {
				return vInvalid, ""
			}
			out = append(out, byte(h*16+l))
			i += 2
			continue
		}
		if c == '=' {
			return vInvalid, ""
		}
		if c < 33 || c > 126 {
			unspec = true
		}
		out = append(out, c)
	}
	if unspec {
		return vUnspec, ""
	}
	return vValid, string(out)
}

func verifPrintable(s string) bool {
	for i := 0; i < len(s); i++ {
		if s[i] < ' ' || s[i] > '~' {
			return false
		}
	}
	return true
}

func verifUpper(s string) string {
	b := []byte(s)
	for i, c := range b {
		if c >= 'a' && c <= 'z' {
			b[i] = c - 32
		}
	}
	return string(b)
}

func verifValueOctets(n int) string {
	v := nondetString(n)
	for i := 0; i < len(v); i++ {
		assume(v[i] > ' ' && v[i] < 0x7f)
	}
	return v
}

func verifMutate(t string) string {
	b := []byte(t)
	pos := nondetInt(0, len(b)-1)
	b[pos] = nondetByte()
	assume(b[pos] > ' ' && b[pos] < 0x7f)
	return string(b)
}

// verif_C11_mailparams: one MAIL parameter with an arbitrary short value (or a
// single-octet mutation of a valid value), extension flags symbolic.
func verif_C11_mailparams() {
	be := &vbackend{}
	srv, lg := verifServer(be)
	srv.EnableDSN, srv.EnableBINARYMIME, srv.EnableSMTPUTF8, srv.EnableREQUIRETLS = nondetBool(), nondetBool(), nondetBool(), nondetBool()
	srv.MaxMessageBytes = 500
	key := verifChoice(7)
	var param string
	class := vUnspec
	want := MailOptions{}
	var wantAuth *string
	switch key {
	case 0: // SIZE
		v := verifValueOctets(3)
		param = "SIZE=" + v
		alld := len(v) > 0
		val := int64(0)
		for i := 0; i < len(v); i++ {
			if v[i] < '0' || v[i] > '9' {
				alld = false
			} else {
				val = val*10 + int64(v[i]-'0')
			}
		}
		hasEq := false
		for i := 0; i < len(v); i++ {
			if v[i] == '=' {
				hasEq = true
			}
		}
		switch {
		case alld && val <= 500:
			class = vValid
			want.Size = val
		case alld:
			class = vInvalid // over the limit: 552
		case len(v) == 0 || hasEq || !alld:
			class = vInvalid
		}
	case 1: // ENVID: a short arbitrary value, or a value with two hexchars of which up to two octets are arbitrary
		var v string
		if nondetBool() {
			v = verifValueOctets(3)
		} else {
			v = verifMutate(verifMutate("i+41d+42"))
		}
		param = "ENVID=" + v
		xc, dec := refXtext(v)
		switch {
		case !srv.EnableDSN:
			class = vInvalid
		case xc == vInvalid || len(v) == 0:
			class = vInvalid
		case xc == vValid && !verifPrintable(dec):
			class = vInvalid
		case xc == vValid:
			class = vValid
			want.EnvelopeID = dec
		}
	case 2: // BODY
		v := verifMutate([]string{"7BIT", "8bitmime", "BINARYMIME"}[verifChoice(3)])
		param = "BODY=" + v
		u := verifUpper(v)
		switch {
		case u == "7BIT" || u == "8BITMIME":
			class = vValid
			want.Body = BodyType(u)
		case u == "BINARYMIME":
			if srv.EnableBINARYMIME {
				class = vValid
				want.Body = BodyBinaryMIME
			} else {
				class = vInvalid
			}
		default:
			class = vInvalid
		}
	case 3: // RET
		v := verifMutate([]string{"FULL", "hdrs"}[verifChoice(2)])
		param = "RET=" + v
		u := verifUpper(v)
		switch {
		case !srv.EnableDSN:
			class = vInvalid
		case u == "FULL" || u == "HDRS":
			class = vValid
			want.Return = DSNReturn(u)
		default:
			class = vInvalid
		}
	case 4: // AUTH
		v := verifValueOctets(3)
		param = "AUTH=" + v
		xc, dec := refXtext(v)
		switch {
		case xc == vInvalid || len(v) == 0:
			class = vInvalid
		case xc == vValid && dec == "<>":
			class = vValid
			e := ""
			wantAuth = &e
		case xc == vValid && len(dec) == 3 && verifIsAlnum(dec[0]) && dec[1] == '@' && verifIsAlnum(dec[2]):
			class = vValid
			d := dec
			wantAuth = &d
		}
	case 5: // flags
		if nondetBool() {
			param = "SMTPUTF8"
			if srv.EnableSMTPUTF8 {
				class = vValid
				want.UTF8 = true
			} else {
				class = vInvalid
			}
		} else {
			param = "REQUIRETLS"
			if srv.EnableREQUIRETLS {
				class = vValid
				want.RequireTLS = true
			} else {
				class = vInvalid
			}
		}
	case 6: // unknown keyword (one-octet mutation of a known one)
		k := verifMutate("SIZE")
		param = k + "=1"
		if verifUpper(k) == "SIZE" {
			class = vValid
			want.Size = 1
		} else {
			hasEq := false
			for i := 0; i < len(k); i++ {
				if k[i] == '=' {
					hasEq = true
				}
			}
			if !hasEq {
				class = vInvalid
			}
		}
	}
	assume(class != vUnspec)
	in := "EHLO c\r\nMAIL FROM:<a@v> " + param + "\r\n"
	vc, _, _ := verifServe(srv, []byte(in), io.EOF)
	reps, wf := verifParseReplies(vc.out)
	verifAssert(wf && len(reps) == 3 && lg.lines == 0, "C11.mailparam-replies")
	if !wf || len(reps) != 3 {
		return
	}
	mi := be.find("Mail", "a@v")
	verifObserve("c11m", param, class, reps[2].code, mi >= 0)
	if class == vInvalid {
		verifReach("C11.mailparam-invalid")
		verifAssert(reps[2].code/100 == 5 && mi < 0, "C11.bad-mail-parameter-refused-backend-not-called")
		return
	}
	verifReach("C11.mailparam-valid")
	verifAssert(reps[2].code == 250 && mi >= 0, "C11.good-mail-parameter-accepted")
	if mi < 0 {
		return
	}
	var got *MailOptions
	for _, e := range be.trace {
		_ = e
	}
	// options recorded by the session
	got = verifLastMailOpts(be)
	verifAssert(got != nil, "C11.mail-options-present")
	if got == nil {
		return
	}
	verifAssert(got.Size == want.Size && got.Body == want.Body && got.UTF8 == want.UTF8 && got.RequireTLS == want.RequireTLS &&
		got.Return == want.Return && got.EnvelopeID == want.EnvelopeID, "C11.mail-options-exact-others-zero")
	if wantAuth == nil {
		verifAssert(got.Auth == nil, "C11.mail-auth-unset")
	} else {
		verifAssert(got.Auth != nil && *got.Auth == *wantAuth, "C11.mail-auth-exact")
	}
}

var verifSessions []*vsession

func verifLastMailOpts(be *vbackend) *MailOptions {
	if be.lastSession == nil || len(be.lastSession.mailOpts) == 0 {
		return nil
	}
	return be.lastSession.mailOpts[len(be.lastSession.mailOpts)-1]
}

func verifLastRcptOpts(be *vbackend) *RcptOptions {
	if be.lastSession == nil || len(be.lastSession.rcptOpts) == 0 {
		return nil
	}
	return be.lastSession.rcptOpts[len(be.lastSession.rcptOpts)-1]
}

// verif_C11_rcptparams: NOTIFY lists over an arbitrary token choice and ORCPT
// values with arbitrary short address text.
func verif_C11_rcptparams() {
	be := &vbackend{}
	srv, lg := verifServer(be)
	srv.EnableDSN = nondetBool()
	srv.EnableRRVS = nondetBool()
	key := verifChoice(3)
	var param string
	class := vUnspec
	var wantNotify []DSNNotify
	wantType, wantAddr := DSNAddressType(""), ""
	var wantSince time.Time
	switch key {
	case 2: // RRVS: a concrete corpus (time parsing is not encoded symbolically)
		// (two of them with a numeric zone offset - east of UTC the offset
		// starts with '+', which is NOT an xtext hexchar here: the value of RRVS
		// is a date-time, not xtext; the engine keeps the instant of a parsed
		// time and normalises its zone to UTC)
		corpus := []string{"2014-04-03T23:01:00Z", "1999-12-31T23:59:59Z;C", "2024-02-29T00:00:00Z;R", "2014-04-04T01:01:00+02:00", "1999-12-31T18:59:59-05:00;C", "2014-04-03 23:01:00Z", "2014-13-03T23:01:00Z", "yesterday", ""}
		okv := []bool{true, true, true, true, true, false, false, false, false}
		k := verifChoice(len(corpus))
		param = "RRVS=" + corpus[k]
		switch {
		case !srv.EnableRRVS:
			class = vInvalid
		case okv[k]:
			class = vValid
			wantSince = []time.Time{time.Date(2014, 4, 3, 23, 1, 0, 0, time.UTC), time.Date(1999, 12, 31, 23, 59, 59, 0, time.UTC), time.Date(2024, 2, 29, 0, 0, 0, 0, time.UTC), time.Date(2014, 4, 3, 23, 1, 0, 0, time.UTC), time.Date(1999, 12, 31, 23, 59, 59, 0, time.UTC)}[k]
		default:
			class = vInvalid
		}
	case 0: // NOTIFY: 1..3 tokens, each one of five (four keywords + junk), arbitrary case of first letter
		toks := []string{"NEVER", "SUCCESS", "FAILURE", "DELAY", "SOMETIMES"}
		n := nondetInt(1, 3)
		val := ""
		seen := map[string]bool{}
		ok := true
		for i := 0; i < n; i++ {
			t := toks[verifChoice(5)]
			if t == "SOMETIMES" || seen[t] {
				ok = false
			}
			seen[t] = true
			wantNotify = append(wantNotify, DSNNotify(t))
			if nondetBool() {
				t = string(t[0]+32) + t[1:]
			}
			if i > 0 {
				val += ","
			}
			val += t
		}
		if seen["NEVER"] && n > 1 {
			ok = false
		}
		param = "NOTIFY=" + val
		if ok && srv.EnableDSN {
			class = vValid
		} else {
			class = vInvalid
		}
	case 1: // ORCPT
		typ := []string{"rfc822", "RFC822", "utf-8", "x400", ""}[verifChoice(5)]
		v := verifValueOctets(3)
		param = "ORCPT=" + typ + ";" + v
		xc, dec := refXtext(v)
		switch {
		case !srv.EnableDSN:
			class = vInvalid
		case typ == "x400" || typ == "" || len(v) == 0:
			class = vInvalid
		case typ == "utf-8":
			// judged only on the plain subset: no '\', '+', '=' => literal
			plain := true
			for i := 0; i < len(v); i++ {
				if v[i] == '\\' || v[i] == '+' || v[i] == '=' {
					plain = false
				}
			}
			if plain {
				class = vValid
				wantType, wantAddr = DSNAddressTypeUTF8, v
			} else if xcHas(v, '=') {
				class = vInvalid
			}
		case xc == vInvalid:
			class = vInvalid
		case xc == vValid && !verifPrintable(dec):
			class = vInvalid
		case xc == vValid:
			class = vValid
			wantType, wantAddr = DSNAddressTypeRFC822, dec
		}
	}
	assume(class != vUnspec)
	// the recipient limit may have been reached by an earlier RCPT: a bad
	// parameter is refused 5xx all the same (the statement knows no exception),
	// a good line is then turned away for the limit, the backend not asked
	full := nondetBool()
	in := "EHLO c\r\nMAIL FROM:<a@v>\r\n"
	k := 3
	if full {
		srv.MaxRecipients = 1
		in += "RCPT TO:<first@v>\r\n"
		k = 4
	}
	in += "RCPT TO:<b@v> " + param + "\r\n"
	vc, _, _ := verifServe(srv, []byte(in), io.EOF)
	reps, wf := verifParseReplies(vc.out)
	verifAssert(wf && len(reps) == k+1 && lg.lines == 0, "C11.rcptparam-replies")
	if !wf || len(reps) != k+1 {
		return
	}
	reps[3] = reps[k]
	ri := be.find("Rcpt", "b@v")
	// (the reply CLASS is observed, not the code: a value with a blank in it is
	// two parameters, and which of them is refused first - 504 for the disabled
	// one or 500 for the unknown one - follows Go's map iteration order)
	verifObserve("c11r", param, class, full, reps[3].code/100, ri >= 0)
	if class == vInvalid {
		verifReach("C11.rcptparam-invalid")
		verifAssert(reps[3].code/100 == 5 && ri < 0, "C11.bad-rcpt-parameter-refused-backend-not-called")
		return
	}
	if full {
		verifReach("C11.rcptparam-valid-over-the-limit")
		verifAssert(reps[3].code == 452 && ri < 0, "C11.good-rcpt-over-the-limit-452-backend-not-called")
		return
	}
	verifReach("C11.rcptparam-valid")
	verifAssert(reps[3].code == 250 && ri >= 0, "C11.good-rcpt-parameter-accepted")
	got := verifLastRcptOpts(be)
	if ri < 0 || got == nil {
		return
	}
	verifAssert(got.OriginalRecipientType == wantType && got.OriginalRecipient == wantAddr, "C11.rcpt-options-exact-others-zero")
	verifAssert(got.RequireRecipientValidSince.Equal(wantSince), "C11.rcpt-rrvs-exact")
	verifAssert(len(got.Notify) == len(wantNotify), "C11.rcpt-notify-length")
	if len(got.Notify) == len(wantNotify) {
		for i := range wantNotify {
			verifAssert(got.Notify[i] == wantNotify[i], "C11.rcpt-notify-exact")
		}
	}
}

func xcHas(v string, c byte) bool {
	for i := 0; i < len(v); i++ {
		if v[i] == c {
			return true
		}
	}
	return false
}

// verif_C11_mail_multi: MAIL with two or three parameters in every order of
// appearance, under both iteration orders of the parameter map (Go leaves map
// order unspecified; natively the transaction is repeated so that both orders
// are likely to occur). Every option must arrive exactly, the others zero.
func verif_C11_mail_multi() {
	params := []string{"SIZE=12", "BODY=8BITMIME", "AUTH=x@y", "ENVID=e1", "RET=FULL", "SMTPUTF8", "AUTH=<>"}
	i1 := verifChoice(len(params))
	i2 := verifChoice(len(params))
	i3 := verifChoice(len(params) + 1)
	idx := []int{i1, i2}
	if i3 < len(params) {
		idx = append(idx, i3)
	}
	keyOf := func(p string) string {
		for j := 0; j < len(p); j++ {
			if p[j] == '=' {
				return p[:j]
			}
		}
		return p
	}
	for a := 0; a < len(idx); a++ {
		for b := a + 1; b < len(idx); b++ {
			assume(keyOf(params[idx[a]]) != keyOf(params[idx[b]]))
		}
	}
	rev := nondetBool()
	verifMapOrder(rev)
	line := "MAIL FROM:<a@v>"
	want := MailOptions{}
	var wantAuth *string
	for _, k := range idx {
		line += " " + params[k]
		switch k {
		case 0:
			want.Size = 12
		case 1:
			want.Body = Body8BitMIME
		case 2:
			v := "x@y"
			wantAuth = &v
		case 3:
			want.EnvelopeID = "e1"
		case 4:
			want.Return = DSNReturnFull
		case 5:
			want.UTF8 = true
		case 6:
			v := ""
			wantAuth = &v
		}
	}
	rounds := 1
	if !verifSymbolic() {
		rounds = 16
	}
	for r := 0; r < rounds; r++ {
		be := &vbackend{}
		srv, _ := verifServer(be)
		srv.EnableDSN, srv.EnableSMTPUTF8 = true, true
		vc, _, _ := verifServe(srv, []byte("EHLO c\r\n"+line+"\r\n"), io.EOF)
		code := verifNthReplyCode(vc.out, 2)
		got := verifLastMailOpts(be)
		if r == 0 {
			verifObserve("c11mm", line, rev, code, got != nil)
		}
		verifAssert(code == 250 && got != nil, "C11.multi-parameter-line-accepted")
		if got == nil {
			return
		}
		verifAssert(got.Size == want.Size && got.Body == want.Body && got.UTF8 == want.UTF8 && !got.RequireTLS &&
			got.Return == want.Return && got.EnvelopeID == want.EnvelopeID, "C11.multi-options-exact")
		if wantAuth == nil {
			verifAssert(got.Auth == nil, "C11.multi-auth-unset")
		} else {
			verifAssert(got.Auth != nil && *got.Auth == *wantAuth, "C11.multi-auth-exact")
		}
	}
	verifReach("C11.multi-end")
}

// verif_C11_route: paths with a source route (RFC 5321 A-d-l, which go-smtp
// strips), one octet mutated, followed by nothing or by a parameter that
// itself contains a ':' - the route must end at ITS colon.
func verif_C11_route() {
	isMail := nondetBool()
	t := []string{"<@x:a@b>", "<@x,@y:a@b>"}[verifChoice(2)]
	s := verifMutate(t)
	class, mbox := refPathClass(s, isMail)
	assume(class != vUnspec)
	param := ""
	withParam := nondetBool()
	be := &vbackend{}
	srv, _ := verifServer(be)
	srv.EnableDSN = true
	if withParam {
		if isMail {
			param = " ENVID=i:d"
		} else {
			param = " ORCPT=rfc822;u:v@w"
		}
	}
	in := "EHLO c\r\n"
	k := 2
	if isMail {
		in += "MAIL FROM:" + s + param + "\r\n"
	} else {
		in += "MAIL FROM:<pre@v>\r\nRCPT TO:" + s + param + "\r\n"
		k = 3
	}
	vc, _, _ := verifServe(srv, []byte(in), io.EOF)
	code := verifNthReplyCode(vc.out, k)
	kind := "Rcpt"
	if isMail {
		kind = "Mail"
	}
	n := 0
	var ev vevent
	for _, e := range be.trace {
		if e.kind == kind && e.arg != "pre@v" {
			n++
			ev = e
		}
	}
	verifObserve("c11route", s, isMail, withParam, class, code, n)
	if class == vValid {
		verifReach("C11.route-valid")
		verifAssert(code == 250 && n == 1 && ev.arg == mbox, "C11.route-valid-accepted-exact")
		if withParam && n == 1 {
			if isMail {
				o := verifLastMailOpts(be)
				verifAssert(o != nil && o.EnvelopeID == "i:d", "C11.route-parameter-intact")
			} else {
				o := verifLastRcptOpts(be)
				verifAssert(o != nil && o.OriginalRecipient == "u:v@w", "C11.route-parameter-intact")
			}
		}
	} else {
		verifReach("C11.route-invalid")
		verifAssert(code/100 == 5 && n == 0, "C11.route-invalid-refused")
	}
}

// verif_C11_size_boundary: MAIL ... SIZE=<n> for n at the integer boundaries
// (2^31-1 .. 2^64, with and without leading zeros), with and without a size
// limit: the command is refused (5xx, backend not called) or the backend sees
// exactly n; with a limit, n above it is refused.
func verif_C11_size_boundary() {
	vals := []string{"0", "7", "007", "2147483647", "2147483648", "4294967295", "4294967296", "9223372036854775807",
		"9223372036854775808", "18446744073709551615", "18446744073709551616", "99999999999999999999"}
	want := []int64{0, 7, 7, 2147483647, 2147483648, 4294967295, 4294967296, 9223372036854775807, -1, -1, -1, -1} // -1: not representable
	i := verifChoice(len(vals))
	limit := []int64{0, 1000, 1 << 40}[verifChoice(3)]
	be := &vbackend{}
	s, _ := verifServer(be)
	s.MaxMessageBytes = limit
	in := "EHLO c\r\nMAIL FROM:<a@v> SIZE=" + vals[i] + "\r\nNOOP\r\n"
	vc, _, _ := verifServe(s, []byte(in), io.EOF)
	reps, wf := verifParseReplies(vc.out)
	verifObserve("c11size", i, limit, wf, len(reps), be.count("Mail"))
	verifAssert(wf && len(reps) == 4 && reps[3].code == 250, "C11.size-one-reply")
	if !wf || len(reps) != 4 {
		return
	}
	if reps[2].code/100 == 2 {
		verifReach("C11.size-accepted")
		verifAssert(be.count("Mail") == 1 && be.lastSession != nil && len(be.lastSession.mailOpts) == 1, "C11.size-accepted-means-called")
		if be.lastSession != nil && len(be.lastSession.mailOpts) == 1 {
			o := be.lastSession.mailOpts[0]
			verifAssert(o != nil && want[i] >= 0 && o.Size == want[i], "C11.size-reaches-backend-exactly")
		}
		verifAssert(limit == 0 || want[i] <= limit, "C11.size-over-limit-refused")
	} else {
		verifReach("C11.size-refused")
		verifAssert(reps[2].code/100 == 5 && be.count("Mail") == 0, "C11.size-refused-backend-not-called")
	}
}

// verif_C11_case_equiv: command verbs, parameter keywords and enumerated
// values are case-insensitive (RFC 5321 sections 2.4 and 4.1.1.1). A conversation
// using every parameter the server knows is sent as written, with all keywords
// in lower case, and in alternating case; addresses and free-form values keep
// their case. Replies have the same codes, the backend sees the same calls with
// the same arguments and options, the message is the same.
func verif_C11_case_equiv() {
	type line struct{ up, rest string } // up: case-insensitive part, rest: case-sensitive part (appended as is)
	conv := [][]line{
		{{"EHLO ", "Client.Example"}},
		{{"MAIL FROM:", "<Sender@V.example>"}, {" SIZE=", "10"}, {" BODY=8BITMIME", ""}, {" SMTPUTF8", ""}, {" RET=HDRS", ""}, {" ENVID=", "Env-1"}, {" AUTH=", "Who@V"}},
		{{"RCPT TO:", "<Rcpt@V.example>"}, {" NOTIFY=SUCCESS,FAILURE", ""}, {" ORCPT=RFC822;", "Orig@V"}},
		{{"RCPT TO:", "<Two@V.example>"}, {" NOTIFY=NEVER", ""}},
		{{"NOOP", ""}},
		{{"VRFY ", "x"}},
		{{"DATA", ""}},
		{{"", "Body Line\r\n."}},
		{{"RSET", ""}},
		{{"MAIL FROM:", "<>"}, {" BODY=BINARYMIME", ""}, {" REQUIRETLS", ""}},
		{{"RCPT TO:", "<Three@V.example>"}, {" RRVS=", "2014-04-03T23:01:00Z"}},
		{{"BDAT 2 LAST", ""}},
	}
	style := verifChoice(3)
	fold := func(s string) string {
		b := []byte(s)
		for i, ch := range b {
			lower := style == 1 || (style == 2 && i%2 == 1)
			upper := style == 2 && i%2 == 0
			if lower && ch >= 'A' && ch <= 'Z' {
				b[i] = ch + 32
			}
			if upper && ch >= 'a' && ch <= 'z' {
				b[i] = ch - 32
			}
		}
		return string(b)
	}
	render := func(st int) string {
		old := style
		style = st
		out := ""
		for _, l := range conv {
			for _, p := range l {
				out += fold(p.up) + p.rest
			}
			out += "\r\n"
			if l[0].up == "BDAT 2 LAST" {
				out = out[:len(out)-2] + "\r\nhiQUIT\r\n"
			}
		}
		style = old
		return out
	}
	type obs struct {
		codes  []int
		calls  []string
		bodies []string
	}
	run := func(in string) obs {
		var o obs
		be := &vbackend{authSession: true, mechs: []string{"PLAIN"}}
		be.dataFn = func(_ *vsession, r io.Reader) error {
			b, _ := verifReadAll(r, 4)
			o.bodies = append(o.bodies, string(b))
			return nil
		}
		s, _ := verifServer(be)
		s.EnableSMTPUTF8, s.EnableREQUIRETLS, s.EnableBINARYMIME, s.EnableDSN, s.EnableRRVS = true, true, true, true, true
		s.AllowInsecureAuth = true
		vc, _, _ := verifServe(s, []byte(in), io.EOF)
		reps, wf := verifParseReplies(vc.out)
		verifAssert(wf, "C11.case-replies-wellformed")
		for _, r := range reps {
			o.codes = append(o.codes, r.code)
		}
		for _, e := range be.trace {
			o.calls = append(o.calls, e.kind+" "+e.arg)
		}
		if be.lastSession != nil {
			for _, m := range be.lastSession.mailOpts {
				if m != nil {
					a := "-"
					if m.Auth != nil {
						a = *m.Auth
					}
					o.calls = append(o.calls, "mailopts "+string(m.Body)+" "+strconv.FormatInt(m.Size, 10)+" "+strconv.FormatBool(m.UTF8)+" "+strconv.FormatBool(m.RequireTLS)+" "+string(m.Return)+" "+m.EnvelopeID+" "+a)
				}
			}
			for _, r := range be.lastSession.rcptOpts {
				if r != nil {
					n := ""
					for _, x := range r.Notify {
						n += string(x) + ","
					}
					o.calls = append(o.calls, "rcptopts "+n+" "+string(r.OriginalRecipientType)+" "+r.OriginalRecipient+" "+strconv.FormatBool(r.RequireRecipientValidSince.IsZero()))
				}
			}
		}
		return o
	}
	ref := run(render(0))
	got := run(render(style))
	verifObserve("c11case", style, len(ref.codes), len(got.codes), len(ref.calls), len(got.calls))
	// the reference conversation is accepted throughout
	for _, c := range ref.codes {
		verifAssert(c/100 == 2 || c == 354, "C11.case-reference-accepted")
	}
	verifAssert(len(ref.codes) == len(got.codes), "C11.case-same-reply-count")
	if len(ref.codes) == len(got.codes) {
		for i := range ref.codes {
			verifAssert(ref.codes[i] == got.codes[i], "C11.case-same-reply-codes")
		}
	}
	verifAssert(len(ref.calls) == len(got.calls), "C11.case-same-calls")
	if len(ref.calls) == len(got.calls) {
		for i := range ref.calls {
			verifAssert(ref.calls[i] == got.calls[i], "C11.case-same-arguments-and-options")
		}
	}
	verifAssert(len(ref.bodies) == 2 && len(got.bodies) == 2 && ref.bodies[0] == got.bodies[0] && ref.bodies[1] == got.bodies[1], "C11.case-same-messages")
	verifReach("C11.case-end")
}

// verif_C11_mail_twice: "every unset field left at its zero value" also for
// the SECOND MAIL on a connection when nothing reset the transaction in
// between: the first MAIL carries one or two parameters and is accepted or
// refused by the backend (451) or refused for a third, unknown parameter; the
// second MAIL carries none (or one other): the backend's second Mail call gets
// exactly the second line's options.
func verif_C11_mail_twice() {
	params := []string{"SIZE=10", "BODY=8BITMIME", "SMTPUTF8", "RET=HDRS", "ENVID=x", "AUTH=<>", "BODY=BINARYMIME"}
	p1 := verifChoice(len(params))
	p2 := verifChoice(len(params) + 1) // == len: none
	first := "MAIL FROM:<one@v> " + params[p1]
	if p2 < len(params) && p2 != p1 {
		first += " " + params[p2]
	}
	how := verifChoice(3) // 0 accepted, 1 refused by the backend, 2 refused for an unknown parameter
	if how == 2 {
		first += " FROBNICATE=1"
	}
	second := "MAIL FROM:<two@v>"
	p3 := verifChoice(len(params) + 1)
	if p3 < len(params) {
		second += " " + params[p3]
	}
	be := &vbackend{}
	if how == 1 {
		be.mailErr = func(from string) error {
			if from == "one@v" {
				return &SMTPError{Code: 451, EnhancedCode: EnhancedCode{4, 3, 0}, Message: "later"}
			}
			return nil
		}
	}
	s, lg := verifServer(be)
	s.EnableSMTPUTF8, s.EnableBINARYMIME, s.EnableDSN = true, true, true
	s.AllowInsecureAuth = true
	vc, _, _ := verifServe(s, []byte("EHLO c\r\n"+first+"\r\n"+second+"\r\n"), io.EOF)
	reps, wf := verifParseReplies(vc.out)
	verifAssert(wf && len(reps) == 4 && lg.lines == 0, "C11.twice-replies")
	if !wf || len(reps) != 4 {
		return
	}
	verifObserve("c11twice", first, second, how, reps[2].code, reps[3].code)
	if reps[3].code == 503 {
		// a server that refuses a MAIL inside an open transaction as out of
		// order (RFC 5321 allows that; C03's business) has not handed anything
		// over: nothing to compare
		verifAssert(be.find("Mail", "two@v") < 0, "C11.twice-refused-mail-backend-not-called")
		verifReach("C11.twice-end")
		return
	}
	verifAssert(reps[3].code == 250, "C11.twice-second-mail-accepted")
	var got *MailOptions
	n := 0
	for i, e := range be.trace {
		if e.kind == "Mail" && e.arg == "two@v" {
			n++
			k := 0
			for _, e2 := range be.trace[:i] {
				if e2.kind == "Mail" {
					k++
				}
			}
			if be.lastSession != nil && k < len(be.lastSession.mailOpts) {
				got = be.lastSession.mailOpts[k]
			}
		}
	}
	verifAssert(n == 1 && got != nil, "C11.twice-second-mail-called-once")
	if got == nil {
		return
	}
	want := MailOptions{}
	switch p3 {
	case 0:
		want.Size = 10
	case 1:
		want.Body = Body8BitMIME
	case 2:
		want.UTF8 = true
	case 3:
		want.Return = DSNReturnHeaders
	case 4:
		want.EnvelopeID = "x"
	case 6:
		want.Body = BodyBinaryMIME
	}
	verifAssert(got.Size == want.Size && got.Body == want.Body && got.UTF8 == want.UTF8 && got.RequireTLS == want.RequireTLS && got.Return == want.Return && got.EnvelopeID == want.EnvelopeID, "C11.twice-unset-fields-zero")
	if p3 == 5 {
		verifAssert(got.Auth != nil && *got.Auth == "", "C11.twice-own-auth")
	} else {
		verifAssert(got.Auth == nil, "C11.twice-unset-auth-nil")
	}
	verifReach("C11.twice-end")
}
