package sym

// Vectorised evaluation of a term that depends on exactly one 8-bit variable:
// the value of the term for each of the 256 values of that variable. This is
// a complete decision procedure for the single-octet fragment and is used by
// the executor as a fast path for branch feasibility (assertions always go to
// the SMT solver).

type Vec [256]uint64

func (c *Ctx) VecOf(t *Term) *Vec {
	if c.vecCache == nil {
		c.vecCache = map[*Term]*Vec{}
	}
	if v, ok := c.vecCache[t]; ok {
		return v
	}
	if len(c.vecCache) > 30000 {
		c.vecCache = map[*Term]*Vec{}
	}
	var out Vec
	switch t.Op {
	case OpConst:
		for i := range out {
			out[i] = t.Val
		}
	case OpVar:
		for i := range out {
			out[i] = uint64(i)
		}
	default:
		var a, b, cc *Vec
		if t.A != nil {
			a = c.VecOf(t.A)
		}
		if t.B != nil {
			b = c.VecOf(t.B)
		}
		if t.C != nil {
			cc = c.VecOf(t.C)
		}
		b2u := func(x bool) uint64 {
			if x {
				return 1
			}
			return 0
		}
		for i := 0; i < 256; i++ {
			var r uint64
			switch t.Op {
			case OpNot:
				r = 1 - a[i]
			case OpAnd:
				r = a[i] & b[i]
			case OpOr:
				r = a[i] | b[i]
			case OpIte:
				if a[i] != 0 {
					r = b[i]
				} else {
					r = cc[i]
				}
			case OpEq:
				r = b2u(a[i] == b[i])
			case OpBNot:
				r = ^a[i] & mask(t.W)
			case OpNeg:
				r = -a[i] & mask(t.W)
			case OpUlt:
				r = b2u(a[i] < b[i])
			case OpUle:
				r = b2u(a[i] <= b[i])
			case OpSlt:
				r = b2u(sext(a[i], t.A.W) < sext(b[i], t.A.W))
			case OpSle:
				r = b2u(sext(a[i], t.A.W) <= sext(b[i], t.A.W))
			case OpExtract:
				r = (a[i] >> uint8(t.Val&0xff)) & mask(t.W)
			case OpZext:
				r = a[i]
			case OpSext:
				r = uint64(sext(a[i], t.A.W)) & mask(t.W)
			case OpConcat:
				r = a[i]<<t.B.W | b[i]
			default:
				v, ok := c.binfold(t.Op, t.W, a[i], b[i])
				if !ok {
					panic("sym: VecOf unknown op")
				}
				r = v
			}
			out[i] = r
		}
	}
	c.vecCache[t] = &out
	return &out
}

// Set256 is a set of octet values.
type Set256 [4]uint64

func FullSet() Set256 { return Set256{^uint64(0), ^uint64(0), ^uint64(0), ^uint64(0)} }

func (s *Set256) Has(i int) bool { return s[i>>6]>>(uint(i)&63)&1 != 0 }
func (s *Set256) Del(i int)      { s[i>>6] &^= 1 << (uint(i) & 63) }
func (s *Set256) Empty() bool    { return s[0]|s[1]|s[2]|s[3] == 0 }

// TruthSet returns {x | t(x) != 0} for a Bool term over one 8-bit variable.
func (c *Ctx) TruthSet(t *Term) Set256 {
	v := c.VecOf(t)
	var s Set256
	for i := 0; i < 256; i++ {
		if v[i] != 0 {
			s[i>>6] |= 1 << (uint(i) & 63)
		}
	}
	return s
}
