#!/usr/bin/env python3
"""Regenerates the seeded-changes table in DESIGN.md from /verif/seeded/*/meta.json."""
import json, glob, os, re
rows=[]
for d in sorted(glob.glob('/verif/seeded/*/')):
    mp=os.path.join(d,'meta.json')
    if not os.path.exists(mp): continue
    m=json.load(open(mp))
    rows.append("| %s | %s | %s |" % (os.path.basename(d.rstrip('/')), m['needs_to_manifest'].replace('|','/'), m['result'].replace('|','/')))
table="<!-- SEEDTABLE-BEGIN -->\n| seed (/verif/seeded/...) | needs, to manifest | outcome |\n|---|---|---|\n"+"\n".join(rows)+"\n<!-- SEEDTABLE-END -->"
p='/verif/DESIGN.md'
s=open(p).read()
if 'SEEDTABLE-BEGIN' in s:
    s=re.sub(r'<!-- SEEDTABLE-BEGIN -->.*?<!-- SEEDTABLE-END -->', lambda _: table, s, flags=re.S)
else:
    s=s.replace('SEEDTABLE', table, 1)
open(p,'w').write(s)
print(len(rows),"seeds")
