package exec

import (
	"fmt"
	"strings"
)

// Happens-before monitor (vector clocks). Enabled per harness (C20); when
// disabled every hook is a no-op.

type vclock []int

type hbAccess struct {
	g     int
	clock int
	write bool
	pos   string
	what  string
}

type hbCell struct {
	lastWrite *hbAccess
	reads     []hbAccess
}

type hbState struct {
	cells map[*value]*hbCell
	races []string
	seen  map[string]bool
}

// hbTrackedFn: accesses are monitored when made by code of the package under
// test (not by harness files, not by the standard library).
func (ex *Exec) hbTrackedFn(fr *frame) bool {
	if fr == nil || fr.info == nil {
		return false
	}
	if fr.info.hbTracked == 0 {
		fr.info.hbTracked = 2
		fn := fr.fn
		for fn.Parent() != nil {
			fn = fn.Parent()
		}
		pkg := fn.Pkg
		if pkg == nil && fn.Origin() != nil {
			pkg = fn.Origin().Pkg
		}
		if pkg == ex.prog.Pkg {
			pos := fn.Pos()
			if pos.IsValid() {
				file := ex.prog.Fset.Position(pos).Filename
				if !strings.Contains(file, "zz_verif") {
					fr.info.hbTracked = 1
				}
			}
		}
	}
	return fr.info.hbTracked == 1
}

func hbFuncName(fr *frame) string {
	fn := fr.fn
	for fn.Parent() != nil {
		fn = fn.Parent()
	}
	n := fn.String()
	n = strings.ReplaceAll(n, "github.com/emersion/go-smtp.", "")
	if fr.fn != fn {
		n += "$goroutine"
	}
	return n
}

func (ex *Exec) hbOn() bool { return ex.hb != nil }

func (v vclock) at(i int) int {
	if i < len(v) {
		return v[i]
	}
	return 0
}

func (v *vclock) set(i, x int) {
	for len(*v) <= i {
		*v = append(*v, 0)
	}
	(*v)[i] = x
}

func (v *vclock) join(o vclock) {
	for i, x := range o {
		if x > v.at(i) {
			v.set(i, x)
		}
	}
}

func (ex *Exec) hbTick(g *goroutine) {
	g.vc.set(g.id, g.vc.at(g.id)+1)
}

func (ex *Exec) hbFork(parent, child *goroutine) {
	if !ex.hbOn() || parent == nil {
		return
	}
	child.vc = append(vclock(nil), parent.vc...)
	ex.hbTick(parent)
	child.vc.set(child.id, 1)
}

func (ex *Exec) hbExit(g *goroutine) {}

// hbEdge: everything from has done so far happens before what to does next.
func (ex *Exec) hbEdge(from, to *goroutine) {
	if !ex.hbOn() || from == nil || to == nil || from == to {
		return
	}
	to.vc.join(from.vc)
	ex.hbTick(from)
}

func (ex *Exec) hbSnapshot(g *goroutine) vclock {
	if !ex.hbOn() || g == nil {
		return nil
	}
	s := append(vclock(nil), g.vc...)
	ex.hbTick(g)
	return s
}

func (ex *Exec) hbJoin(g *goroutine, vc vclock) {
	if !ex.hbOn() || g == nil || vc == nil {
		return
	}
	g.vc.join(vc)
}

func (ex *Exec) hbTracked(p *value) bool {
	if ex.hb == nil || ex.hbFilter == nil {
		return false
	}
	return ex.hbFilter(ex.cur.fr)
}

func (ex *Exec) hbRead(p *value) {
	if ex.hb == nil {
		return
	}
	ex.hbAccess(p, false)
}

func (ex *Exec) hbWrite(p *value) {
	if ex.hb == nil {
		return
	}
	ex.hbAccess(p, true)
}

func (ex *Exec) hbAccess(p *value, write bool) {
	g := ex.cur
	if g == nil || g.fr == nil || g.id < 0 {
		return
	}
	if !ex.hbTrackedFn(g.fr) {
		return
	}
	c := ex.hb.cells[p]
	if c == nil {
		c = &hbCell{}
		ex.hb.cells[p] = c
	}
	pos := hbFuncName(g.fr)
	me := hbAccess{g: g.id, clock: g.vc.at(g.id), write: write, pos: pos, what: ex.hbWhat}
	ordered := func(a *hbAccess) bool {
		return a.g == g.id || a.clock <= g.vc.at(a.g)
	}
	report := func(a *hbAccess) {
		k1, k2 := "read", "read"
		if a.write {
			k1 = "write"
		}
		if write {
			k2 = "write"
		}
		x, y := k1+"@"+a.pos, k2+"@"+pos
		if x > y {
			x, y = y, x
		}
		what := ex.hbWhat
		if what == "" {
			what = a.what
		}
		key := fmt.Sprintf("race: %s: %s vs %s", what, x, y)
		if !ex.hb.seen[key] {
			ex.hb.seen[key] = true
			ex.hb.races = append(ex.hb.races, key)
		}
	}
	if c.lastWrite != nil && !ordered(c.lastWrite) {
		report(c.lastWrite)
	}
	if write {
		for i := range c.reads {
			if !ordered(&c.reads[i]) {
				report(&c.reads[i])
			}
		}
		c.lastWrite = &me
		c.reads = c.reads[:0]
	} else {
		for i := range c.reads {
			if c.reads[i].g == g.id {
				c.reads[i] = me
				return
			}
		}
		c.reads = append(c.reads, me)
	}
}
