#!/bin/bash
# usage: save_seed.sh <ID> <name> <outdir> "<needs>" "<result: caught-by ... | missed>"
ID=$1; NAME=$2; OUT=$3; NEEDS=$4; RESULT=$5
D=/verif/seeded/$ID-$NAME
mkdir -p $D
cp $OUT/patch.diff $D/patch.diff
cp $OUT/demo_test.go $D/demo_test.go
cp $OUT/notes.md $D/notes.md 2>/dev/null
python3 - "$ID" "$NAME" "$NEEDS" "$RESULT" <<'PY'
import json,sys
ID,NAME,NEEDS,RESULT=sys.argv[1:5]
json.dump({"property":ID,"name":NAME,"breaks":ID,"needs_to_manifest":NEEDS,
 "origin":"written by an independent sub-agent that saw only the property text and a scratch worktree",
 "confirmed":"scripts/verify_seed.sh in the scratch worktree: patch applies, go build ok, existing tests pass with the patch, demo_test.go fails with the patch and passes without it",
 "check_run":"scripts/try_seed.sh patch.diff "+ID+" (git -C /repo apply; /verif/bin/check "+ID+" --tier quick; git -C /repo checkout -- .)",
 "result":RESULT}, open("/verif/seeded/%s-%s/meta.json"%(ID,NAME),"w"), indent=1)
PY
echo saved $D
