package exec

import (
	"go/types"
)

// crypto/tls environment stub. A *tls.Conn is an opaque object wrapping the
// harness connection. Handshake succeeds or fails as the harness connection
// says (verifTLSHandshake); after that, Read/Write go to the harness's
// separate inside-TLS streams (verifTLSRead / verifTLSWrite), never to the
// plaintext stream. This is the documented contract of TLS - octets sent in
// plaintext are never returned by reads on the TLS connection - not an
// encoding of the protocol.

type tlsStub struct {
	under     iface
	isServer  bool
	handshook bool
	hsErr     value
}

func (ex *Exec) tlsOf(p *value) *tlsStub {
	if p == nil {
		ex.rtPanic("invalid memory address or nil pointer dereference")
	}
	if s, ok := ex.sideTab[p]; ok {
		return s.(*tlsStub)
	}
	ex.inconclusive("*tls.Conn not created through tls.Server/tls.Client")
	return nil
}

func (ex *Exec) tlsCallUnder(fr *frame, st *tlsStub, name string, args ...value) value {
	m := ex.methodOf(st.under.t, name)
	if m == nil {
		ex.inconclusive("TLS stub: underlying connection has no method " + name)
	}
	return ex.call(fr, m, append([]value{st.under.v}, args...))
}

func (ex *Exec) tlsHandshake(fr *frame, st *tlsStub) value {
	if st.handshook {
		return st.hsErr
	}
	st.handshook = true
	st.hsErr = ex.tlsCallUnder(fr, st, "verifTLSHandshake")
	return st.hsErr
}

func init() {
	mk := func(server bool) intrinsic {
		return func(ex *Exec, fr *frame, a []value) value {
			tp := ex.prog.SSA.ImportedPackage("crypto/tls")
			var cell value = zero(tp.Type("Conn").Type())
			p := &cell
			ex.sideTab[p] = &tlsStub{under: a[0].(iface), isServer: server}
			return p
		}
	}
	reg("crypto/tls.Server", mk(true))
	reg("crypto/tls.Client", mk(false))
	reg("(*crypto/tls.Conn).Handshake", func(ex *Exec, fr *frame, a []value) value {
		return ex.tlsHandshake(fr, ex.tlsOf(a[0].(*value)))
	})
	reg("(*crypto/tls.Conn).HandshakeContext", func(ex *Exec, fr *frame, a []value) value {
		return ex.tlsHandshake(fr, ex.tlsOf(a[0].(*value)))
	})
	rw := func(name string) intrinsic {
		return func(ex *Exec, fr *frame, a []value) value {
			st := ex.tlsOf(a[0].(*value))
			if e := ex.tlsHandshake(fr, st); e.(iface).t != nil {
				return tuple{uint64(0), e}
			}
			return ex.tlsCallUnder(fr, st, name, a[1])
		}
	}
	reg("(*crypto/tls.Conn).Read", rw("verifTLSRead"))
	reg("(*crypto/tls.Conn).Write", rw("verifTLSWrite"))
	for _, n := range []string{"Close", "LocalAddr", "RemoteAddr"} {
		n := n
		reg("(*crypto/tls.Conn)."+n, func(ex *Exec, fr *frame, a []value) value {
			return ex.tlsCallUnder(fr, ex.tlsOf(a[0].(*value)), n)
		})
	}
	for _, n := range []string{"SetDeadline", "SetReadDeadline", "SetWriteDeadline"} {
		n := n
		reg("(*crypto/tls.Conn)."+n, func(ex *Exec, fr *frame, a []value) value {
			return ex.tlsCallUnder(fr, ex.tlsOf(a[0].(*value)), n, a[1])
		})
	}
	reg("(*crypto/tls.Conn).NetConn", func(ex *Exec, fr *frame, a []value) value {
		return ex.tlsOf(a[0].(*value)).under
	})
	reg("(*crypto/tls.Conn).ConnectionState", func(ex *Exec, fr *frame, a []value) value {
		tp := ex.prog.SSA.ImportedPackage("crypto/tls")
		st := zero(tp.Type("ConnectionState").Type()).(structure)
		stub := ex.tlsOf(a[0].(*value))
		// field HandshakeComplete
		ts := tp.Type("ConnectionState").Type().Underlying().(*types.Struct)
		for i := 0; i < ts.NumFields(); i++ {
			if ts.Field(i).Name() == "HandshakeComplete" {
				st[i] = stub.handshook && stub.hsErr.(iface).t == nil
			}
		}
		return st
	})
	reg("(*crypto/tls.Config).Clone", func(ex *Exec, fr *frame, a []value) value {
		p := a[0].(*value)
		if p == nil {
			return p
		}
		var cell value = copyVal(*p)
		return &cell
	})
}

func init() {
	// net.Dialer.Dial / tls.Dialer.Dial return the connection the harness
	// put into the package variable verifDialConn (nil => dial error).
	dial := func(ex *Exec, fr *frame, a []value) value {
		g, ok := ex.prog.Pkg.Members["verifDialConn"]
		if !ok {
			ex.inconclusive("Dial without a harness connection (verifDialConn)")
		}
		gv := *ex.global(g.(*ssaGlobal))
		conn := gv.(iface)
		if conn.t == nil {
			return tuple{iface{}, ex.newError(fr, "verif: dial failed", iface{})}
		}
		return tuple{conn, iface{}}
	}
	reg("(*net.Dialer).Dial", dial)
	reg("(*crypto/tls.Dialer).Dial", func(ex *Exec, fr *frame, a []value) value {
		ex.inconclusive("tls.Dialer.Dial (implicit TLS dialing) is not stubbed")
		return nil
	})
	reg("net.SplitHostPort", func(ex *Exec, fr *frame, a []value) value {
		s, ok := a[0].(string)
		if !ok {
			ex.inconclusive("net.SplitHostPort on symbolic text")
		}
		h, p, err := netSplitHostPort(s)
		if err != nil {
			return tuple{"", "", ex.newError(fr, err.Error(), iface{})}
		}
		return tuple{h, p, iface{}}
	})
}
