package main

import (
	"crypto/sha1"
	"encoding/json"
	"fmt"
	"os"
	"os/exec"
	"path/filepath"
	"sort"
	"strconv"
	"strings"
	"time"

	gosym "verif/gosym/exec"
)

type checker struct {
	repo, verif, tier string
	workers           int
	native            bool
	verbose           bool
	maxPaths          int64
	only              string
	solver            string
	// harness files left out because they do not compile against this tree
	// (a white-box harness naming a field that a refactoring removed): the
	// rest is still checked, the verdict can then be VIOLATION or
	// INCONCLUSIVE, never OK
	dropped     []string
	filesCached []string
}

type knownFinding struct {
	ID          string `json:"id"`
	Property    string `json:"property"`
	Status      string `json:"status"` // known | fixed
	Harness     string `json:"harness,omitempty"`
	Label       string `json:"label,omitempty"`
	Description string `json:"description"`
	Witness     string `json:"witness,omitempty"`
	Commit      string `json:"commit,omitempty"`
}

func (c *checker) tierN() int {
	if c.tier == "thorough" {
		return 1
	}
	return 0
}

func (c *checker) harnessFiles() ([]string, error) {
	if c.filesCached != nil {
		return c.filesCached, nil
	}
	fs, err := filepath.Glob(filepath.Join(c.verif, "harness", "zz_verif_*.go"))
	sort.Strings(fs)
	return fs, err
}

func (c *checker) loadFiles(files []string) (*gosym.Program, error) {
	overlay := map[string][]byte{}
	for _, f := range files {
		b, err := os.ReadFile(f)
		if err != nil {
			return nil, err
		}
		overlay[filepath.Join(c.repo, filepath.Base(f))] = b
	}
	return gosym.Load(c.repo, overlay)
}

func (c *checker) load() (*gosym.Program, error) {
	files, err := c.harnessFiles()
	if err != nil {
		return nil, err
	}
	for round := 0; ; round++ {
		prog, err := c.loadFiles(files)
		if err == nil {
			c.filesCached = files
			return prog, nil
		}
		if round >= 6 {
			return nil, err
		}
		// harness files named in the errors are left out and the load retried
		// (never zz_verif_api.go / zz_verif_env.go: without them nothing runs)
		msg := err.Error()
		var keep []string
		n := 0
		for _, f := range files {
			base := filepath.Base(f)
			if strings.Contains(msg, "/"+base+":") && base != "zz_verif_api.go" && base != "zz_verif_env.go" {
				c.dropped = append(c.dropped, base)
				n++
				continue
			}
			keep = append(keep, f)
		}
		if n == 0 {
			return nil, err
		}
		files = keep
	}
}

func (c *checker) knownFor(id string) (known []knownFinding, all []knownFinding) {
	b, err := os.ReadFile(filepath.Join(c.verif, "known_findings.json"))
	if err != nil {
		return nil, nil
	}
	var doc struct {
		Findings []knownFinding `json:"findings"`
	}
	if json.Unmarshal(b, &doc) != nil {
		return nil, nil
	}
	for _, k := range doc.Findings {
		if k.Property == id && k.Status == "known" {
			known = append(known, k)
		}
	}
	return known, doc.Findings
}

func (c *checker) list() int {
	prog, err := c.load()
	if err != nil {
		fmt.Fprintln(os.Stderr, "load:", err)
		return 2
	}
	for _, h := range prog.Harnesses("verif_") {
		fmt.Println(h, prog.ReachLabels(h))
	}
	return 0
}

func (c *checker) selectHarnesses(prog *gosym.Program, id string) []string {
	var out []string
	for _, h := range prog.Harnesses("verif_" + id + "_") {
		if strings.HasSuffix(h, "_thorough") && c.tier != "thorough" {
			continue
		}
		if c.only != "" && h != c.only {
			continue
		}
		out = append(out, h)
	}
	return out
}

type harnessSummary struct {
	Name            string         `json:"name"`
	Paths           int64          `json:"paths"`
	Completed       int64          `json:"completed"`
	Pruned          int64          `json:"pruned_by_assume"`
	Decisions       int64          `json:"solver_decided_branches"`
	Choices         int64          `json:"enumerated_choices"`
	FastDecided     int64          `json:"branch_queries_decided_by_octet_domain"`
	Solver2Queries  int64          `json:"assertion_queries_rechecked_by_second_solver"`
	Solver2Unknown  int64          `json:"of_which_second_solver_gave_up_within_3s"`
	AssertsSolver   int64          `json:"assertions_discharged_by_solver"`
	AssertsConcrete int64          `json:"assertions_true_by_constant_folding"`
	Steps           int64          `json:"ssa_instructions_executed"`
	Reached         map[string]int `json:"reach_labels"`
	WallS           float64        `json:"wall_s"`
	SolverS         float64        `json:"solver_s"`
	Queries         map[string]int `json:"queries"`
	Violations      int            `json:"violations"`
	Inconclusive    map[string]int `json:"inconclusive,omitempty"`
	Validated       int            `json:"native_vs_engine_traces_agreed"`
	ValidationDiffs []string       `json:"native_vs_engine_disagreements,omitempty"`
	Witnesses       int            `json:"reach_witnesses_replayed_natively"`
}

func (c *checker) run(id string) int {
	t0 := time.Now()
	loadMeta(c.verif)
	seed, _ := strconv.ParseInt(os.Getenv("VERIF_SEED"), 10, 64)
	prog, err := c.load()
	if err != nil {
		fmt.Printf("INCONCLUSIVE property=%s reason=cannot load %s: %v\n", id, c.repo, err)
		return 2
	}
	loadS := time.Since(t0).Seconds()
	hs := c.selectHarnesses(prog, id)
	if len(hs) == 0 {
		fmt.Printf("INCONCLUSIVE property=%s reason=no harness\n", id)
		return 2
	}
	known, _ := c.knownFor(id)
	var knownIDs []string
	knownLabel := map[string]knownFinding{}
	for _, k := range known {
		knownIDs = append(knownIDs, k.ID)
		if strings.HasPrefix(k.Label, "race:") {
			knownLabel[k.Label] = k
		}
	}
	nativeRaces := map[string]map[string]bool{}
	var sums []harnessSummary
	var inconcl []string
	if len(c.dropped) > 0 {
		inconcl = append(inconcl, "harness files that do not compile against this tree were left out (their harnesses did not run): "+strings.Join(c.dropped, " "))
	}
	var violLines []string
	var knownLines []string
	funcs := map[string]int{}
	funcInstr := map[string]int{}
	var samples []interface{}
	totalViol := 0
	var pendingReplay []replayCase
	var stubViol, stubInconcl []string
	nat := newNative(c)
	type hres struct {
		rep *gosym.Report
		h   string
	}
	var results []hres
	budget := 300 * time.Second
	if c.tier == "thorough" {
		budget = 45 * time.Minute
	}
	if v, err := strconv.Atoi(os.Getenv("VERIF_BUDGET_S")); err == nil && v > 0 {
		budget = time.Duration(v) * time.Second
	}
	deadline := t0.Add(budget)
	for _, h := range hs {
		cfg := gosym.Config{Harness: h, Tier: c.tierN(), Workers: c.workers, KnownIDs: knownIDs, SolverKind: c.solver,
			MaxPaths: c.maxPaths, PreemptBound: 2, WitnessMode: c.native, Deadline: deadline,
			Solver2Kind: solver2For(c.tier),
			NoFastPath:  os.Getenv("VERIF_NO_FASTPATH") != "", CrossCheck: c.tier == "thorough" || os.Getenv("VERIF_CROSSCHECK") != ""}
		if c.tier == "thorough" {
			cfg.PreemptBound = 3
		}
		rep := gosym.Explore(prog, cfg)
		results = append(results, hres{rep, h})
		if c.verbose {
			fmt.Fprintf(os.Stderr, "[%s] paths=%d completed=%d pruned=%d branches=%d assertsS=%d assertsC=%d viol=%d wall=%.1fs solver=%.1fs sat/unsat/unk=%d/%d/%d inconclusive=%v reached=%v\n",
				h, rep.Paths, rep.Completed, rep.Pruned, rep.Branches, rep.AssertsSolver, rep.AssertsConcrete, len(rep.Violations),
				rep.Wall.Seconds(), rep.SolverTime.Seconds(), rep.SolverSat, rep.SolverUnsat, rep.SolverUnknown, rep.Inconclusive, rep.Reached)
		}
	}
	// native phase: (1) confirm unlisted violations, (2) reach witnesses, (3) translator validation
	for _, r := range results {
		rep, h := r.rep, r.h
		seen := map[string]bool{}
		if strings.HasSuffix(h, "_stub") {
			// harness depends on the TLS stub: it cannot be compiled against
			// the real crypto/tls meaningfully, so counterexamples are
			// confirmed by a pinned re-execution inside the engine only.
			for _, v := range rep.Violations {
				if !v.Unlisted || seen[v.Label] {
					continue
				}
				seen[v.Label] = true
				rc := replayCase{Property: id, Harness: h, Label: v.Label, Inputs: v.Inputs, Kinds: v.Kinds, Sched: v.Sched, Spawned: v.Spawned, Tier: c.tierN(), Detail: v.Pos, kind: "violation"}
				res := gosym.RunPinnedOnce(prog, h, v.Inputs, v.Sched, c.tierN())
				confirmed := false
				for _, pv := range res.Violations {
					if pv.Label == v.Label {
						confirmed = true
					}
				}
				if confirmed {
					path := c.writeReplay(rc)
					stubViol = append(stubViol, fmt.Sprintf("VIOLATION property=%s replay=%s", id, path))
					fmt.Fprintf(os.Stderr, "violation (TLS-stub harness, confirmed by pinned re-execution in the engine): harness=%s label=%s %s inputs=%v\n", h, v.Label, v.Pos, v.Inputs)
				} else {
					stubInconcl = append(stubInconcl, fmt.Sprintf("%s: counterexample for %q does not reproduce under pinned re-execution", h, v.Label))
				}
			}
			continue
		}
		for _, v := range rep.Violations {
			if !v.Unlisted {
				continue
			}
			if seen[v.Label] {
				continue
			}
			if strings.HasPrefix(v.Label, "race:") {
				seen[v.Label] = true
				if k, ok := knownLabel[v.Label]; ok {
					knownLines = append(knownLines, fmt.Sprintf("KNOWN-FINDING: property=%s %s %s", id, k.ID, k.Description))
					continue
				}
				// an unlisted race: confirm with the Go race detector if possible
				how := "happens-before monitor on a pinned schedule"
				if c.native {
					if _, done := nativeRaces[h]; !done {
						pairs, _ := nat.runRace(h, 30, c.tierN())
						nativeRaces[h] = pairs
					}
					pair := v.Label[strings.Index(v.Label[6:], ": ")+8:]
					if nativeRaces[h][pair] {
						how = "also reported by the Go race detector on the natively compiled harness"
					}
				}
				rc := replayCase{Property: id, Harness: h, Label: v.Label, Inputs: v.Inputs, Kinds: v.Kinds, Sched: v.Sched, Tier: c.tierN(), Detail: how, kind: "violation"}
				path := c.writeReplay(rc)
				stubViol = append(stubViol, fmt.Sprintf("VIOLATION property=%s replay=%s", id, path))
				fmt.Fprintf(os.Stderr, "violation: harness=%s %s (%s) inputs=%v sched=%v\n", h, v.Label, how, v.Inputs, v.Sched)
				continue
			}
			seen[v.Label] = true
			pendingReplay = append(pendingReplay, replayCase{Property: id, Harness: h, Label: v.Label, Inputs: v.Inputs, Kinds: v.Kinds, Sched: v.Sched, Spawned: v.Spawned, Tier: c.tierN(), Detail: v.Pos, kind: "violation"})
		}
		for l, w := range rep.Witnesses {
			pendingReplay = append(pendingReplay, replayCase{Property: id, Harness: h, Label: l, Inputs: w.Inputs, Kinds: w.Kinds, Sched: w.Sched, Tier: c.tierN(), kind: "witness"})
		}
		nRand := 12
		if c.tier == "thorough" {
			nRand = 60
		}
		for i := 0; i < nRand; i++ {
			pendingReplay = append(pendingReplay, replayCase{Property: id, Harness: h, Tier: c.tierN(), Random: true, Seed: seed*1000003 + int64(i) + 1, kind: "random"})
		}
	}
	var outs []nativeOut
	nativeErr := ""
	if c.native && len(pendingReplay) > 0 {
		outs, err = nat.runCases(pendingReplay)
		if err != nil {
			nativeErr = err.Error()
		}
	}
	violLines = append(violLines, stubViol...)
	totalViol += len(stubViol)
	inconcl = append(inconcl, stubInconcl...)
	byHarness := map[string]*harnessSummary{}
	for _, r := range results {
		rep, h := r.rep, r.h
		s := harnessSummary{Name: h, Paths: rep.Paths, Completed: rep.Completed, Pruned: rep.Pruned, Decisions: rep.Branches, Choices: rep.Choices, FastDecided: rep.FastDecided, Solver2Queries: rep.Solver2Queries, Solver2Unknown: rep.Solver2Unknown,
			AssertsSolver: rep.AssertsSolver, AssertsConcrete: rep.AssertsConcrete, Steps: rep.Steps, Reached: rep.Reached,
			WallS: rep.Wall.Seconds(), SolverS: rep.SolverTime.Seconds(),
			Queries:      map[string]int{"sat": rep.SolverSat, "unsat": rep.SolverUnsat, "unknown": rep.SolverUnknown},
			Violations:   len(rep.Violations),
			Inconclusive: rep.Inconclusive}
		for reason, n := range rep.Inconclusive {
			inconcl = append(inconcl, fmt.Sprintf("%s: %s (x%d)", h, reason, n))
		}
		for _, e := range rep.SolverErrors {
			inconcl = append(inconcl, fmt.Sprintf("%s: solver error: %s", h, e))
			break
		}
		if rep.SolverUnknown > 0 {
			inconcl = append(inconcl, fmt.Sprintf("%s: %d solver queries returned unknown", h, rep.SolverUnknown))
		}
		// vacuity
		for _, l := range prog.ReachLabels(h) {
			if rep.Reached[l] == 0 && rep.Reached["!"+l] == 0 {
				inconcl = append(inconcl, fmt.Sprintf("%s: vacuous: label %q reached on no feasible path", h, l))
			}
		}
		if rep.AssertsSolver+rep.AssertsConcrete == 0 {
			inconcl = append(inconcl, fmt.Sprintf("%s: vacuous: no assertion was evaluated", h))
		}
		for name, n := range rep.Funcs {
			funcs[name] += n
			if in, ok := rep.FuncInstr[name]; ok {
				funcInstr[name] = in
			}
		}
		for _, sm := range rep.Samples {
			if len(samples) < 8 {
				samples = append(samples, map[string]interface{}{"harness": h, "decisions": sm.Decisions, "inputs": sm.Inputs, "kinds": sm.Kinds, "observes": sm.Observes, "outcome": sm.Outcome})
			}
		}
		// known findings that still reproduce
		kseen := map[string]bool{}
		for _, v := range rep.Violations {
			if v.Unlisted {
				continue
			}
			for _, kid := range v.Known {
				if !kseen[kid] {
					kseen[kid] = true
					desc := kid
					for _, k := range known {
						if k.ID == kid {
							desc = kid + " " + k.Description
						}
					}
					knownLines = append(knownLines, fmt.Sprintf("KNOWN-FINDING: property=%s %s", id, desc))
				}
			}
		}
		sums = append(sums, s)
		byHarness[h] = &sums[len(sums)-1]
	}
	if nativeErr != "" {
		inconcl = append(inconcl, "native replay/validation failed: "+nativeErr)
	}
	validated := 0
	for i, o := range outs {
		rc := pendingReplay[i]
		hs := byHarness[rc.Harness]
		switch rc.kind {
		case "violation":
			if o.Outcome == "violated" && o.Label == rc.Label || (rc.Label == "unrecovered-panic" && o.Outcome == "panic") {
				path := c.writeReplay(rc)
				violLines = append(violLines, fmt.Sprintf("VIOLATION property=%s replay=%s", id, path))
				fmt.Fprintf(os.Stderr, "violation: harness=%s label=%s %s inputs=%v\n", rc.Harness, rc.Label, rc.Detail, rc.Inputs)
				totalViol++
			} else if rc.Label == "deadlock" && o.Outcome == "timeout" && len(rc.Sched) == 0 {
				// the natively compiled harness hangs on the same inputs
				path := c.writeReplay(rc)
				violLines = append(violLines, fmt.Sprintf("VIOLATION property=%s replay=%s", id, path))
				fmt.Fprintf(os.Stderr, "violation: harness=%s label=deadlock %s inputs=%v (the native run hangs too)\n", rc.Harness, rc.Detail, rc.Inputs)
				totalViol++
			} else if rc.Label == "deadlock" || len(rc.Sched) > 0 || rc.Spawned {
				// schedule-dependent (scheduler choices on the path, or
				// simply goroutines of the code under test running beside
				// the command loop): the native scheduler cannot be forced;
				// confirmed by re-executing the real SSA in the engine with
				// inputs and schedule pinned.
				res := gosym.RunPinnedOnce(prog, rc.Harness, rc.Inputs, rc.Sched, c.tierN())
				confirmed := false
				for _, pv := range res.Violations {
					if pv.Label == rc.Label {
						confirmed = true
					}
				}
				if confirmed {
					path := c.writeReplay(rc)
					violLines = append(violLines, fmt.Sprintf("VIOLATION property=%s replay=%s", id, path))
					fmt.Fprintf(os.Stderr, "violation (schedule-dependent; native run gave %s %s; confirmed by pinned re-execution in the engine): harness=%s label=%s %s inputs=%v sched=%v\n", o.Outcome, o.Label, rc.Harness, rc.Label, rc.Detail, rc.Inputs, rc.Sched)
					totalViol++
				} else {
					inconcl = append(inconcl, fmt.Sprintf("%s: schedule-dependent counterexample for %q reproduces neither natively nor under pinned re-execution", rc.Harness, rc.Label))
				}
			} else {
				inconcl = append(inconcl, fmt.Sprintf("%s: counterexample for %q (%s, inputs %v) does not replay natively (native outcome %s %s %s): encoding or stub is wrong", rc.Harness, rc.Label, rc.Detail, rc.Inputs, o.Outcome, o.Label, o.PanicMsg))
			}
		case "witness":
			found := false
			for _, l := range o.Reached {
				if "witness:"+l == rc.Label {
					found = true
				}
			}
			if found {
				hs.Witnesses++
			} else if len(rc.Sched) == 0 {
				inconcl = append(inconcl, fmt.Sprintf("%s: reach witness %q does not replay natively (outcome %s %s)", rc.Harness, rc.Label, o.Outcome, o.PanicMsg))
			}
		case "random":
			ok, diff := c.validateAgainstEngine(prog, rc, o)
			if ok {
				validated++
				hs.Validated++
			} else if diff != "" {
				hs.ValidationDiffs = append(hs.ValidationDiffs, diff)
				if len(hs.ValidationDiffs) == 1 {
					inconcl = append(inconcl, fmt.Sprintf("%s: encoder disagrees with compiler: %s", rc.Harness, diff))
				}
			}
		}
	}
	if !c.native {
		// without native confirmation every unlisted violation is reported
		for _, rc := range pendingReplay {
			if rc.kind == "violation" {
				path := c.writeReplay(rc)
				violLines = append(violLines, fmt.Sprintf("VIOLATION property=%s replay=%s", id, path))
				fmt.Fprintf(os.Stderr, "violation (not natively replayed): harness=%s label=%s %s inputs=%v\n", rc.Harness, rc.Label, rc.Detail, rc.Inputs)
				totalViol++
			}
		}
	}
	wall := time.Since(t0).Seconds()
	c.writeEvidence(id, seed, sums, funcs, funcInstr, samples, validated, totalViol, inconcl, knownLines, wall, loadS)
	for _, l := range knownLines {
		fmt.Println(l)
	}
	for _, l := range violLines {
		fmt.Println(l)
	}
	if len(violLines) > 0 {
		return 1
	}
	if len(inconcl) > 0 {
		sort.Strings(inconcl)
		for i, r := range inconcl {
			if i > 12 {
				fmt.Printf("INCONCLUSIVE property=%s reason=... %d more\n", id, len(inconcl)-i)
				break
			}
			fmt.Printf("INCONCLUSIVE property=%s reason=%s\n", id, r)
		}
		return 2
	}
	var paths, asserts int64
	for _, s := range sums {
		paths += s.Paths
		asserts += s.AssertsSolver + s.AssertsConcrete
	}
	fmt.Printf("OK property=%s tier=%s harnesses=%d paths=%d assertions=%d validated=%d wall=%.1fs\n", id, c.tier, len(sums), paths, asserts, validated, wall)
	return 0
}

// solver2For: in the thorough tier every assertion query is re-discharged by
// cvc5 (VERIF_SOLVER2 overrides: "none", "cvc5", "z3-new").
func solver2For(tier string) string {
	if v := os.Getenv("VERIF_SOLVER2"); v != "" {
		if v == "none" {
			return ""
		}
		return v
	}
	if tier == "thorough" {
		return "cvc5"
	}
	return ""
}

func (c *checker) validateAgainstEngine(prog *gosym.Program, rc replayCase, o nativeOut) (bool, string) {
	res := gosym.RunPinnedOnce(prog, rc.Harness, o.Drawn, nil, c.tierN())
	engOutcome := "ok"
	label := ""
	// reports of the happens-before monitor are not harness outcomes
	var hv []gosym.Violation
	for _, v := range res.Violations {
		if !strings.HasPrefix(v.Label, "race:") {
			hv = append(hv, v)
		}
	}
	res.Violations = hv
	switch {
	case len(res.Violations) > 0:
		engOutcome, label = "violated", res.Violations[0].Label
		if label == "unrecovered-panic" {
			engOutcome = "panic"
		}
	case res.Aborted && strings.HasPrefix(res.Reason, "assum") || res.Aborted && strings.Contains(res.Reason, "nondetInt") || res.Aborted && strings.Contains(res.Reason, "verifChoice"):
		engOutcome = "assume"
	case res.Aborted && res.IsInconclusive():
		return false, fmt.Sprintf("seed %d: engine inconclusive on concrete inputs %v: %s", rc.Seed, o.Drawn, res.Reason)
	}
	natOutcome := o.Outcome
	if natOutcome != engOutcome || (natOutcome == "violated" && o.Label != label) {
		return false, fmt.Sprintf("seed %d inputs %v: native outcome %s %s %s, engine outcome %s %s (%s)", rc.Seed, o.Drawn, o.Outcome, o.Label, o.PanicMsg, engOutcome, label, res.Reason)
	}
	if natOutcome == "assume" {
		return true, ""
	}
	if len(o.Observes) != len(res.Observes) {
		return false, fmt.Sprintf("seed %d inputs %v: %d native observations vs %d engine observations\n native=%v\n engine=%v", rc.Seed, o.Drawn, len(o.Observes), len(res.Observes), o.Observes, res.Observes)
	}
	for i := range o.Observes {
		if o.Observes[i] != res.Observes[i] {
			return false, fmt.Sprintf("seed %d inputs %v: observation %d differs: native %q engine %q", rc.Seed, o.Drawn, i, o.Observes[i], res.Observes[i])
		}
	}
	return true, ""
}

func (c *checker) writeReplay(rc replayCase) string {
	dir := filepath.Join(c.verif, "replays")
	os.MkdirAll(dir, 0o755)
	b, _ := json.MarshalIndent(rc, "", " ")
	h := sha1.Sum(b)
	path := filepath.Join(dir, fmt.Sprintf("%s-%x.json", rc.Property, h[:5]))
	os.WriteFile(path, b, 0o644)
	return path
}

func (c *checker) replayFile(path string) int {
	b, err := os.ReadFile(path)
	if err != nil {
		fmt.Fprintln(os.Stderr, err)
		return 2
	}
	var rc replayCase
	if err := json.Unmarshal(b, &rc); err != nil {
		fmt.Fprintln(os.Stderr, err)
		return 2
	}
	rc.kind = "violation"
	nat := newNative(c)
	outs, err := nat.runCases([]replayCase{rc})
	if err != nil {
		fmt.Fprintln(os.Stderr, "native replay failed:", err)
		return 2
	}
	o := outs[0]
	fmt.Printf("native replay: harness=%s outcome=%s label=%s %s\n", rc.Harness, o.Outcome, o.Label, o.PanicMsg)
	for _, ob := range o.Observes {
		fmt.Println("  observe:", ob)
	}
	if (o.Outcome == "violated" && o.Label == rc.Label) || (o.Outcome == "panic" && rc.Label == "unrecovered-panic") {
		fmt.Printf("VIOLATION property=%s replay=%s\n", rc.Property, path)
		return 1
	}
	if len(rc.Sched) > 0 || rc.Label == "deadlock" {
		// schedule-dependent: confirm in the engine with the schedule pinned
		prog, err := c.load()
		if err != nil {
			fmt.Fprintln(os.Stderr, err)
			return 2
		}
		res := gosym.RunPinnedOnce(prog, rc.Harness, rc.Inputs, rc.Sched, rc.Tier)
		for _, v := range res.Violations {
			if v.Label == rc.Label {
				fmt.Printf("engine replay with pinned schedule reproduces %s\nVIOLATION property=%s replay=%s\n", rc.Label, rc.Property, path)
				return 1
			}
		}
	}
	return 0
}

func (c *checker) writeEvidence(id string, seed int64, sums []harnessSummary, funcs, funcInstr map[string]int, samples []interface{}, validated, viol int, inconcl, knownLines []string, wall, loadS float64) {
	var states, transitions, oblig, discharged int64
	var solverS float64
	q := map[string]int{}
	for _, s := range sums {
		states += s.Completed
		transitions += s.Decisions + s.Choices
		oblig += s.AssertsSolver + s.AssertsConcrete
		discharged += s.AssertsSolver + s.AssertsConcrete - int64(s.Violations)
		solverS += s.SolverS
		for k, v := range s.Queries {
			q[k] += v
		}
	}
	type fe struct {
		Name   string `json:"name"`
		Kind   string `json:"kind"`
		Calls  int    `json:"calls"`
		Instrs int    `json:"ssa_instructions,omitempty"`
	}
	var fes []fe
	for name, n := range funcs {
		kind := "stdlib-from-source"
		switch {
		case strings.HasPrefix(name, "intrinsic:"):
			kind = "intrinsic"
		case strings.Contains(name, "go-smtp") && strings.Contains(name, "verif"):
			kind = "harness"
		case strings.Contains(name, "go-smtp"):
			kind = "repo"
		}
		fes = append(fes, fe{strings.TrimPrefix(name, "intrinsic:"), kind, n, funcInstr[name]})
	}
	sort.Slice(fes, func(i, j int) bool {
		if fes[i].Kind != fes[j].Kind {
			return fes[i].Kind < fes[j].Kind
		}
		return fes[i].Name < fes[j].Name
	})
	if len(samples) == 0 {
		samples = append(samples, map[string]interface{}{"note": "no path completed"})
	}
	meta := harnessMeta[id]
	ev := map[string]interface{}{
		"property_id": id,
		"tier":        c.tier,
		"seed":        seed,
		"level":       "model_checking",
		"coverage": map[string]interface{}{
			"states":                        maxi(states, 0),
			"transitions":                   transitions,
			"traces_validated_against_impl": validated,
			"samples":                       samples,
			"obligations":                   oblig,
			"discharged":                    discharged,
			"explanation":                   "bounded symbolic execution of the real SSA of /repo's current tree; states = feasible paths completed, transitions = solver-decided branch/concretisation decisions plus enumerated harness/scheduler choices (reported separately per harness), obligations = assertion evaluations (solver-discharged + constant-folded)",
			"harnesses":                     sums,
			"functions_encoded":             fes,
			"bounds":                        meta.Bounds,
			"outside_bounds":                meta.Outside,
			"stubs":                         meta.Stubs,
			"queries":                       q,
			"solver_s":                      solverS,
			"load_and_ssa_build_s":          loadS,
			"inconclusive":                  inconcl,
			"known_findings_seen":           knownLines,
			"solver":                        c.solver + " (persistent process per worker)",
			"workers":                       c.workers,
		},
		"assumptions": append([]string{
			"the symbolic executor (/verif/engine) implements go/ssa semantics faithfully; cross-checked on every run by executing the same harness natively on seeded random inputs and comparing observations (traces_validated_against_impl)",
			"intrinsics (bytealg index/equal, ASCII case mapping, fmt verbs, regexp matcher, sync/time/TLS stubs) behave like the functions they replace",
			"stdlib executed from source is Go " + goVersion(),
		}, meta.Assumptions...),
		"wall_s":     wall,
		"violations": viol,
	}
	b, _ := json.MarshalIndent(ev, "", " ")
	os.MkdirAll(filepath.Join(c.verif, "evidence"), 0o755)
	os.WriteFile(filepath.Join(c.verif, "evidence", id+".json"), b, 0o644)
}

func maxi(a, b int64) int64 {
	if a > b {
		return a
	}
	return b
}

func goVersion() string {
	out, err := exec.Command("go", "version").Output()
	if err != nil {
		return "unknown"
	}
	return strings.TrimSpace(string(out))
}
