package smtp

import "io"

func verif_C04_line() { verifLineHarness("C04") }

// verif_C04_stale: a chunked transfer is abandoned (RSET, a new MAIL, a new
// EHLO) and a second message is sent with BDAT LAST on the same connection.
// The delivery goroutine of the abandoned transfer finishes at a point chosen
// by the scheduler. The final reply of the second message must be that
// message's own verdict.
func verif_C04_stale() {
	verifPreemptBound(verifBound(1, 2))
	how := verifChoice(3)
	second := nondetBool() // verdict of the second message
	ncall := 0
	var got2 []byte
	// harness-controlled event order: with gated set, the aborted delivery
	// does not return before the second delivery has started (a slow backend)
	gated := nondetBool()
	gate := make(chan struct{})
	be := &vbackend{}
	be.dataFn = func(_ *vsession, r io.Reader) error {
		ncall++
		me := ncall
		if me == 2 && gated {
			close(gate)
			verifSettle()
		}
		b, rerr := verifReadAll(r, 4)
		if me == 1 {
			if gated && how != 2 {
				<-gate
			}
			if rerr == io.EOF {
				return nil
			}
			return rerr
		}
		got2 = b
		if rerr != io.EOF {
			return rerr
		}
		if second {
			return nil
		}
		return &SMTPError{Code: 550, EnhancedCode: EnhancedCode{5, 6, 0}, Message: "second rejected"}
	}
	s, _ := verifServer(be)
	in := "EHLO c\r\nMAIL FROM:<one@v>\r\nRCPT TO:<r@v>\r\nBDAT 2\r\nab"
	n := 5
	switch how {
	case 0:
		in += "RSET\r\n"
		n++
	case 1:
		in += "EHLO again\r\n"
		n++
	case 2:
		in += "QUIT\r\n"
	}
	if how != 2 {
		in += "MAIL FROM:<two@v>\r\nRCPT TO:<r@v>\r\nBDAT 3 LAST\r\nxyz"
	}
	vc, _, _ := verifServe(s, []byte(in), io.EOF)
	reps, wf := verifParseReplies(vc.out)
	verifAssert(wf, "C04.stale-replies-wellformed")
	if !wf {
		return
	}
	verifObserve("c04s", how, second, len(reps), ncall)
	if how == 2 {
		verifReach("C04.stale-quit")
		verifAssert(len(reps) == n+1 && reps[n].code == 221, "C04.quit-after-chunk")
	} else {
		verifReach("C04.stale-second-message")
		verifAssert(len(reps) == n+3, "C04.stale-one-reply-per-command")
		if len(reps) == n+3 {
			final := reps[n+2]
			if second {
				verifAssert(final.code == 250, "C04.final-reply-positive-iff-this-message-accepted")
			} else {
				verifAssert(final.code == 550 && final.lines[0] == "5.6.0 second rejected", "C04.negative-reply-carries-own-error")
			}
			verifAssert(string(got2) == "xyz", "C04.second-message-octets")
		}
	}
	verifAssert(verifGoroutinesAlive() == 0, "C04.stale-no-goroutine-left")
}
