package exec

import (
	"fmt"
	"go/types"

	"golang.org/x/tools/go/ssa"
)

// Cooperative scheduler: every interpreted goroutine runs on its own Go
// goroutine, but exactly one holds the baton at any time. Control changes
// hands only at synchronisation operations; which runnable goroutine
// continues is a recorded choice ('c' decision), i.e. the schedule is part of
// the path's decision vector and is explored like any other input.

type gstate int

const (
	gRunnable gstate = iota
	gBlocked
	gDone
)

type goroutine struct {
	id      int
	fr      *frame
	depth   int
	wake    chan struct{}
	state   gstate
	pred    func() bool
	what    string
	vc      vclock
	exited  chan struct{}
	started bool
	fn      value
	args    []value
	spawnAt string
}

type selState struct {
	done        bool
	chosen      int
	val         value
	ok          bool
	closedPanic bool
}

type waiter struct {
	g       *goroutine
	val     value
	caseIdx int
	sel     *selState
}

type vchan struct {
	cap    int
	buf    []value
	bufvc  []vclock
	closed bool
	recvq  []*waiter
	sendq  []*waiter
	id     int
	vc     vclock // for close -> recv edges
	zeroT  types.Type
}

var chanCounter int

func (ex *Exec) newChan(n int) *vchan {
	chanCounter++
	return &vchan{cap: n, id: chanCounter}
}

func firstActive(q *[]*waiter) *waiter {
	for len(*q) > 0 {
		w := (*q)[0]
		if w.sel.done {
			*q = (*q)[1:]
			continue
		}
		return w
	}
	return nil
}

func popActive(q *[]*waiter) *waiter {
	w := firstActive(q)
	if w != nil {
		*q = (*q)[1:]
	}
	return w
}

func (ex *Exec) runnable(g *goroutine) bool {
	switch g.state {
	case gRunnable:
		return true
	case gBlocked:
		return g.pred != nil && g.pred()
	}
	return false
}

func (ex *Exec) others() []*goroutine {
	var out []*goroutine
	for _, g := range ex.gs {
		if g != ex.cur && ex.runnable(g) {
			out = append(out, g)
		}
	}
	return out
}

// switchTo hands the baton to next and parks the current goroutine until it
// is handed back.
func (ex *Exec) switchTo(next *goroutine) {
	me := ex.cur
	ex.cur = next
	if !next.started {
		next.started = true
		go ex.goroutineMain(next)
	} else {
		next.wake <- struct{}{}
	}
	if me.state == gDone {
		return
	}
	<-me.wake
	if ex.dead {
		if me.id == 0 && ex.pendingAbort != nil {
			pa := *ex.pendingAbort
			panic(pa)
		}
		panic(pathAbort{abortKilled, "path ended"})
	}
}

// blockUntil parks the current goroutine until pred holds.
func (ex *Exec) blockUntil(pred func() bool, what string) {
	for !pred() {
		me := ex.cur
		me.state, me.pred, me.what = gBlocked, pred, what
		rs := ex.others()
		if len(rs) == 0 {
			ex.deadlock()
		}
		i := ex.schedChoose(len(rs), "blocked: next goroutine")
		ex.switchTo(rs[i])
		me.state, me.pred = gRunnable, nil
	}
	ex.cur.state, ex.cur.pred = gRunnable, nil
}

func (ex *Exec) deadlock() {
	desc := ""
	for _, g := range ex.gs {
		if g.state == gBlocked {
			desc += fmt.Sprintf(" g%d:%s", g.id, g.what)
		}
	}
	ex.ps.deadlocked = true
	ex.ps.deadlockDesc = desc
	panic(pathAbort{abortDeadlock, "deadlock: all goroutines blocked:" + desc})
}

// schedChoose: which runnable goroutine continues when the current one cannot
// (blocked, finished, quiescing). All orders are explored for the first
// SchedForkBound such choices of a path; later ones take the lowest id
// (stated bound; see DESIGN.md).
func (ex *Exec) schedChoose(n int, why string) int {
	if n <= 1 {
		return 0
	}
	if ex.ps.schedForks >= ex.SchedForkBound {
		return 0
	}
	ex.ps.schedForks++
	return ex.choose(n, why)
}

// preemptPoint lets the scheduler switch away from a runnable goroutine at
// a synchronisation operation (bounded number of times per path).
func (ex *Exec) preemptPoint(what string) {
	if ex.cur == nil || len(ex.gs) <= 1 {
		return
	}
	if ex.ps.preemptions >= ex.PreemptBound {
		return
	}
	rs := ex.others()
	if len(rs) == 0 {
		return
	}
	i := ex.choose(len(rs)+1, "preempt at "+what)
	if i == 0 {
		return
	}
	ex.ps.preemptions++
	ex.switchTo(rs[i-1])
}

// yieldAll runs other goroutines until none of them is runnable.
func (ex *Exec) quiesce() {
	for {
		rs := ex.others()
		if len(rs) == 0 {
			return
		}
		i := ex.schedChoose(len(rs), "quiesce: next goroutine")
		ex.switchTo(rs[i])
	}
}

func (ex *Exec) spawn(fr *frame, fn value, args []value) {
	g := &goroutine{id: len(ex.gs), wake: make(chan struct{}), exited: make(chan struct{}), fn: fn, args: args}
	if fr != nil {
		g.spawnAt = ex.prog.Fset.Position(fr.curPos).String()
	}
	ex.hbFork(ex.cur, g)
	ex.gs = append(ex.gs, g)
	ex.preemptPoint("go")
}

func (ex *Exec) goroutineMain(g *goroutine) {
	defer close(g.exited)
	defer func() {
		p := recover()
		g.state = gDone
		if p == nil {
			ex.hbExit(g)
			// normal exit: hand the baton to someone else
			ex.handOff()
			return
		}
		if pa, ok := p.(pathAbort); ok {
			if pa.kind == abortKilled {
				return
			}
			ex.abortFrom(pa)
			return
		}
		if tp, ok := p.(targetPanic); ok {
			ex.ps.panics = append(ex.ps.panics, "unrecovered in goroutine: "+panicString(tp.v))
			ex.abortFrom(pathAbort{abortEndPath, "unrecovered panic in goroutine: " + panicString(tp.v)})
			return
		}
		ex.abortFrom(pathAbort{abortInconclusive, fmt.Sprintf("engine panic in goroutine: %v", p)})
	}()
	ex.call(nil, g.fn, g.args)
}

// handOff passes the baton on when the current goroutine has finished.
func (ex *Exec) handOff() {
	rs := ex.others()
	if len(rs) == 0 {
		// everyone else is blocked: if main is blocked this is a deadlock
		ex.abortFrom(pathAbort{abortDeadlock, "deadlock: all remaining goroutines blocked"})
		return
	}
	i := 0
	func() {
		defer func() {
			if p := recover(); p != nil {
				if pa, ok := p.(pathAbort); ok {
					ex.abortFrom(pa)
					i = -1
					return
				}
				panic(p)
			}
		}()
		i = ex.schedChoose(len(rs), "exit: next goroutine")
	}()
	if i < 0 {
		return
	}
	ex.switchTo(rs[i])
}

// abortFrom ends the path from a non-main goroutine: record the abort and
// wake main, which re-raises it.
func (ex *Exec) abortFrom(pa pathAbort) {
	if pa.kind == abortDeadlock {
		ex.ps.deadlocked = true
		if ex.ps.deadlockDesc == "" {
			for _, g := range ex.gs {
				if g.state == gBlocked {
					ex.ps.deadlockDesc += fmt.Sprintf(" g%d:%s", g.id, g.what)
				}
			}
		}
	}
	ex.pendingAbort = &pa
	ex.dead = true
	main := ex.gs[0]
	ex.cur = main
	main.wake <- struct{}{}
}

// teardown kills every parked goroutine at the end of a path.
func (ex *Exec) teardown() {
	ex.dead = true
	for _, g := range ex.gs[1:] {
		if !g.started {
			continue
		}
		select {
		case <-g.exited:
			continue
		default:
		}
		select {
		case g.wake <- struct{}{}:
		case <-g.exited:
		}
		<-g.exited
	}
}

// --- channels --------------------------------------------------------------

func (ex *Exec) chanSend(ch *vchan, v value) {
	ex.preemptPoint("chan send")
	if ch == nil {
		ex.blockUntil(func() bool { return false }, "send on nil channel")
	}
	if ch.closed {
		ex.rtPanic("send on closed channel")
	}
	if w := popActive(&ch.recvq); w != nil {
		w.sel.done, w.sel.chosen, w.sel.val, w.sel.ok = true, w.caseIdx, v, true
		ex.hbEdge(ex.cur, w.g)
		// the receiver is runnable now: it may run before the sender's next step
		ex.preemptPoint("chan send woke a receiver")
		return
	}
	if len(ch.buf) < ch.cap {
		ch.buf = append(ch.buf, v)
		ch.bufvc = append(ch.bufvc, ex.hbSnapshot(ex.cur))
		return
	}
	st := &selState{}
	ch.sendq = append(ch.sendq, &waiter{g: ex.cur, val: v, sel: st})
	ex.blockUntil(func() bool { return st.done }, fmt.Sprintf("chan send (chan#%d)", ch.id))
	if st.closedPanic {
		ex.rtPanic("send on closed channel")
	}
}

func (ex *Exec) chanRecv(ch *vchan, et types.Type) (value, bool) {
	ex.preemptPoint("chan recv")
	if ch == nil {
		ex.blockUntil(func() bool { return false }, "receive from nil channel")
	}
	if v, ok, done := ex.tryRecv(ch, et); done {
		return v, ok
	}
	st := &selState{}
	ch.recvq = append(ch.recvq, &waiter{g: ex.cur, sel: st})
	ex.blockUntil(func() bool { return st.done }, fmt.Sprintf("chan receive (chan#%d)", ch.id))
	if !st.ok {
		return zero(et), false
	}
	return st.val, true
}

func (ex *Exec) tryRecv(ch *vchan, et types.Type) (value, bool, bool) {
	if len(ch.buf) > 0 {
		v := ch.buf[0]
		ex.hbJoin(ex.cur, ch.bufvc[0])
		ch.buf = ch.buf[1:]
		ch.bufvc = ch.bufvc[1:]
		if w := popActive(&ch.sendq); w != nil {
			ch.buf = append(ch.buf, w.val)
			ch.bufvc = append(ch.bufvc, ex.hbSnapshot(w.g))
			w.sel.done, w.sel.chosen = true, w.caseIdx
		}
		return v, true, true
	}
	if w := popActive(&ch.sendq); w != nil {
		w.sel.done, w.sel.chosen = true, w.caseIdx
		ex.hbEdge(w.g, ex.cur)
		ex.hbEdge(ex.cur, w.g)
		return w.val, true, true
	}
	if ch.closed {
		ex.hbJoin(ex.cur, ch.vc)
		return zero(et), false, true
	}
	return nil, false, false
}

func (ex *Exec) chanClose(ch *vchan) {
	ex.preemptPoint("chan close")
	if ch == nil {
		ex.rtPanic("close of nil channel")
	}
	if ch.closed {
		ex.rtPanic("close of closed channel")
	}
	ch.closed = true
	ch.vc = ex.hbSnapshot(ex.cur)
	for {
		w := popActive(&ch.recvq)
		if w == nil {
			break
		}
		w.sel.done, w.sel.chosen, w.sel.ok = true, w.caseIdx, false
		ex.hbEdge(ex.cur, w.g)
	}
	for {
		w := popActive(&ch.sendq)
		if w == nil {
			break
		}
		w.sel.done, w.sel.chosen, w.sel.closedPanic = true, w.caseIdx, true
	}
}

func (ex *Exec) doSelect(fr *frame, instr *ssa.Select) value {
	ex.preemptPoint("select")
	type scase struct {
		ch   *vchan
		send bool
		val  value
		et   types.Type
	}
	cases := make([]scase, len(instr.States))
	for i, st := range instr.States {
		ch, _ := fr.get(st.Chan).(*vchan)
		cases[i] = scase{ch: ch, send: st.Dir == types.SendOnly, et: st.Chan.Type().Underlying().(*types.Chan).Elem()}
		if st.Send != nil {
			cases[i].val = fr.get(st.Send)
		}
	}
	ready := func() []int {
		var r []int
		for i, c := range cases {
			if c.ch == nil {
				continue
			}
			if c.send {
				if c.ch.closed || firstActive(&c.ch.recvq) != nil || len(c.ch.buf) < c.ch.cap {
					r = append(r, i)
				}
			} else if len(c.ch.buf) > 0 || firstActive(&c.ch.sendq) != nil || c.ch.closed {
				r = append(r, i)
			}
		}
		return r
	}
	result := func(chosen int, recv value, ok bool) value {
		r := tuple{uint64(int64(chosen)), ok}
		for i, c := range cases {
			if !c.send {
				if i == chosen && ok {
					r = append(r, recv)
				} else {
					r = append(r, zero(c.et))
				}
			}
		}
		return r
	}
	if rs := ready(); len(rs) > 0 {
		k := rs[ex.choose(len(rs), "select: ready case")]
		c := cases[k]
		if c.send {
			if c.ch.closed {
				ex.rtPanic("send on closed channel")
			}
			if w := popActive(&c.ch.recvq); w != nil {
				w.sel.done, w.sel.chosen, w.sel.val, w.sel.ok = true, w.caseIdx, c.val, true
				ex.hbEdge(ex.cur, w.g)
				// the receiver is runnable now: it may run before the sender's next step
				ex.preemptPoint("select send woke a receiver")
			} else {
				c.ch.buf = append(c.ch.buf, c.val)
				c.ch.bufvc = append(c.ch.bufvc, ex.hbSnapshot(ex.cur))
			}
			return result(k, nil, false)
		}
		v, ok, _ := ex.tryRecv(c.ch, c.et)
		return result(k, v, ok)
	}
	if !instr.Blocking {
		return result(-1, nil, false)
	}
	st := &selState{}
	for i, c := range cases {
		if c.ch == nil {
			continue
		}
		w := &waiter{g: ex.cur, val: c.val, caseIdx: i, sel: st}
		if c.send {
			c.ch.sendq = append(c.ch.sendq, w)
		} else {
			c.ch.recvq = append(c.ch.recvq, w)
		}
	}
	ex.blockUntil(func() bool { return st.done }, "select")
	if st.closedPanic {
		ex.rtPanic("send on closed channel")
	}
	if cases[st.chosen].send {
		return result(st.chosen, nil, false)
	}
	if !st.ok {
		ex.hbJoin(ex.cur, cases[st.chosen].ch.vc)
	}
	return result(st.chosen, st.val, st.ok)
}

// --- sync primitives --------------------------------------------------------

type mutexState struct {
	locked  bool
	readers int
	vc      vclock
}

func (ex *Exec) mutexOf(p *value) *mutexState {
	if s, ok := ex.sideTab[p]; ok {
		return s.(*mutexState)
	}
	s := &mutexState{}
	ex.sideTab[p] = s
	return s
}

type onceState struct {
	done, running bool
	vc            vclock
}

type wgState struct {
	n  int64
	vc vclock
	// sema stands for the location the race detector uses to flag "Add from
	// zero concurrent with Wait" (sync.WaitGroup's own race annotations: the
	// first increment is a read, the first blocking Wait a write of wg.sema)
	sema    *value
	waiters int
}
