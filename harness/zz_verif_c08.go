package smtp

import (
	"io"
	"time"
)

// ---------------------------------------------------------------------------
// C08: a prefix of commands, a closing event, and a suffix of commands that is
// already buffered behind it in the same network segment.
//
// Oracle over the backend trace with session identities: every session
// returned by NewSession gets exactly one Logout and no callback after it;
// once the server has closed (221, closing 500, 421) nothing at all happens
// except that Logout; no panic is recovered that the harness did not inject;
// no goroutine is left.

var verifC08Cmds = []string{
	"EHLO c.example\r\n",
	"MAIL FROM:<a@v>\r\n",
	"RCPT TO:<b@v>\r\n",
	"DATA\r\nhi\r\n.\r\n",
	"RSET\r\n",
	"NOOP\r\n",
	"FROB\r\n",
	"QUIT\r\n",
	"EHLO other.example\r\n",
}

func verifCheckSessions(be *vbackend, tag string) {
	live := map[int]bool{}
	done := map[int]int{}
	for _, e := range be.trace {
		switch e.kind {
		case "NewSession":
			if e.sess > 0 {
				live[e.sess] = true
			}
		case "Logout":
			done[e.sess]++
			verifAssert(live[e.sess], "C08.logout-only-for-live-session")
			live[e.sess] = false
		default:
			verifAssert(live[e.sess], "C08.no-callback-after-logout")
		}
	}
	for id := 1; id <= be.sessions; id++ {
		verifAssert(done[id] == 1, "C08.exactly-one-logout-per-session")
	}
}

func verif_C08_run() {
	np := verifBound(2, 3)
	ns := verifBound(2, 2)
	be := &vbackend{}
	panicInMail := false
	// the backend may refuse to create a session from some call on
	failFrom := nondetInt(1, 4) // NewSession fails from this call on (4 = never, at most 3 greetings fit)
	nsCalls := 0
	be.onNewSession = func(c *Conn) {
		nsCalls++
		if nsCalls >= failFrom {
			be.newSessionErr = verifErrBackend()
		}
	}
	s, lg := verifServer(be)
	s.MaxLineLength = 40
	in := []byte{}
	for i := 0; i < np; i++ {
		c := verifChoice(len(verifC08Cmds))
		in = append(in, verifC08Cmds[c]...)
	}
	closing := verifChoice(6)
	switch closing {
	case 0: // QUIT
		in = append(in, "QUIT\r\n"...)
	case 1: // error flood
		in = append(in, "FROB\r\nFROB\r\nFROB\r\nFROB\r\n"...)
	case 2: // over-long line
		in = append(in, "NOOP                                                                  \r\n"...)
	case 3: // backend panic
		panicInMail = true
		in = append(in, "EHLO p.example\r\nMAIL FROM:<panic@v>\r\n"...)
	case 4: // nothing: peer just disconnects after the suffix
	case 5: // idle timeout: the read deadline expires here (at a command boundary or two octets into the next line); the suffix arrives late
		s.ReadTimeout = time.Second
	}
	be.mailErr = func(from string) error {
		if panicInMail && from == "panic@v" {
			panic("verif: injected backend panic")
		}
		return nil
	}
	closeAt := len(in)
	for i := 0; i < ns; i++ {
		c := verifChoice(len(verifC08Cmds))
		in = append(in, verifC08Cmds[c]...)
	}
	final := io.EOF
	vc := &vconn{in: in, final: final}
	if closing == 5 {
		off := closeAt
		if nondetBool() {
			off += 2
		}
		vc.faults = map[int]error{off: verifTimeoutErr{}}
	}
	c := newConn(vc, s)
	s.handleConn(c)
	verifSettle()
	if closing == 5 && !vc.fired[closeAt] && !vc.fired[closeAt+2] {
		// the prefix already closed the connection (QUIT in the prefix)
		verifReach("C08.timeout-not-reached")
	}

	verifCheckSessions(be, "run")
	// Where did the server decide to close? Find the closing reply in the output.
	reps, wf := verifParseReplies(vc.out)
	verifAssert(wf, "C08.replies-wellformed")
	closedIdx := -1
	for i, r := range reps {
		if r.code == 221 || r.code == 421 || (r.code == 500 && len(r.lines) == 1 && (r.lines[0] == "5.5.1 Too many errors. Quiting now" || r.lines[0] == "5.4.0 Too long line, closing connection")) {
			closedIdx = i
			break
		}
	}
	verifObserve("c08", closing, closeAt, len(reps), closedIdx, len(be.trace), vc.closes)
	if closedIdx >= 0 {
		verifReach("C08.server-closed")
		verifAssert(closedIdx == len(reps)-1, "C08.no-reply-after-closing-reply")
	}
	verifAssert(vc.closed, "C08.socket-closed-at-end")
	// injected panic is the only one allowed
	want := 0
	if closing == 3 {
		// the injected panic is reached only if the connection was still open
		for _, e := range be.trace {
			_ = e
		}
	}
	_ = want
	verifAssert(lg.lines <= 1 && (closing == 3 || lg.lines == 0), "C08.no-unexpected-error-log")
	verifAssert(verifPanicEvents() <= 1 && (closing == 3 || verifPanicEvents() == 0), "C08.no-unexpected-recovered-panic")
	verifAssert(verifGoroutinesAlive() == 0, "C08.no-goroutine-left")
}

// verif_C08_transfer_end: the connection ends in the middle of, or because of,
// a message transfer: a backend panic inside Data/LMTPData (via DATA or BDAT,
// before or after consuming), QUIT / disconnect between chunks, or a normal
// completion followed by a disconnect. Every session gets exactly one Logout,
// the socket is closed, no goroutine is left and nothing deadlocks.
func verif_C08_transfer_end() {
	verifPreemptBound(verifBound(0, 1))
	lmtp := nondetBool()
	perRcpt := lmtp && nondetBool()
	bdat := nondetBool()
	ending := verifChoice(5) // 0 panic before reading, 1 panic after reading, 2 QUIT between chunks, 3 disconnect between chunks, 4 completes
	be := &vbackend{lmtpSession: perRcpt}
	consume := func(r io.Reader) error {
		if ending == 0 {
			panic("verif: injected panic before reading")
		}
		_, e := verifReadAll(r, 4)
		if ending == 1 {
			panic("verif: injected panic after reading")
		}
		if e == io.EOF {
			return nil
		}
		return e
	}
	be.dataFn = func(_ *vsession, r io.Reader) error { return consume(r) }
	be.lmtpFn = func(_ *vsession, r io.Reader, _ StatusCollector) error { return consume(r) }
	s, lg := verifServer(be)
	s.LMTP = lmtp
	hello := "EHLO c\r\n"
	if lmtp {
		hello = "LHLO c\r\n"
	}
	in := hello + "MAIL FROM:<a@v>\r\nRCPT TO:<b@v>\r\n"
	if bdat {
		in += "BDAT 2\r\nab"
		switch ending {
		case 2:
			in += "QUIT\r\n"
		case 3:
		default:
			in += "BDAT 1 LAST\r\nc"
		}
	} else {
		assume(ending != 2 && ending != 3)
		in += "DATA\r\nabc\r\n.\r\n"
	}
	in += "NOOP\r\n"
	vc, _, _ := verifServe(s, []byte(in), io.EOF)
	verifObserve("c08t", lmtp, perRcpt, bdat, ending, len(be.trace), vc.closes, lg.lines)
	verifCheckSessions(be, "transfer")
	verifAssert(be.sessions == 1, "C08.transfer-one-session")
	verifAssert(vc.closed, "C08.transfer-socket-closed")
	verifAssert(verifGoroutinesAlive() == 0, "C08.transfer-no-goroutine-left")
	if ending <= 1 {
		verifReach("C08.transfer-panic")
		verifAssert(lg.lines == 1, "C08.transfer-panic-logged-once")
		// nothing runs after the 421: the NOOP gets no reply
		reps, wf := verifParseReplies(vc.out)
		verifAssert(wf && len(reps) > 0 && reps[len(reps)-1].code == 421, "C08.transfer-421-is-last")
	} else {
		verifReach("C08.transfer-no-panic")
		verifAssert(lg.lines == 0, "C08.transfer-nothing-logged")
	}
}

// verif_C08_close_overlap: the connection ends on its own (peer gone, QUIT or
// the error threshold) while Server.Close closes it from another goroutine, and
// the backend's Logout is slow (a scheduling point before and after its
// effect). Under every interleaving the scheduler explores, each session is
// logged out exactly once and nothing happens on it afterwards.
func verif_C08_close_overlap() {
	verifPreemptBound(verifBound(2, 3))
	verifSchedForkBound(verifBound(4, 6))
	be := &vbackend{logoutYield: true}
	s, _ := verifServer(be)
	ending := verifChoice(3)
	in := "EHLO c\r\nMAIL FROM:<a@v>\r\n"
	switch ending {
	case 1:
		in += "QUIT\r\n"
	case 2:
		in += "FROB\r\nFROB\r\nFROB\r\nFROB\r\n"
	}
	vc := &vconn{in: []byte(in), final: io.EOF}
	c := newConn(vc, s)
	done := make(chan struct{})
	go func() {
		s.handleConn(c)
		close(done)
	}()
	go func() {
		s.Close()
	}()
	<-done
	verifSettle()
	verifObserve("c08ov", ending) // (only schedule-independent values)
	// exactly one Logout per session
	live := map[int]bool{}
	done1 := map[int]int{}
	late := false
	for _, e := range be.trace {
		switch e.kind {
		case "NewSession":
			live[e.sess] = true
		case "Logout":
			done1[e.sess]++
			verifAssert(live[e.sess], "C08.overlap-logout-only-for-live-session")
			live[e.sess] = false
		default:
			if !live[e.sess] {
				late = true
			}
		}
	}
	for id := 1; id <= be.sessions; id++ {
		verifAssert(done1[id] == 1, "C08.overlap-exactly-one-logout-per-session")
	}
	verifAssert(verifGoroutinesAlive() == 0, "C08.overlap-no-goroutine-left")
	verifReach("C08.overlap-end")
	// Listed known finding (see known_findings.json): Server.Close logs the
	// session out under Conn.locker while the command loop, which fetched the
	// session just before, goes on to call it. Kept as the LAST assertion of
	// the harness so that the tag covers nothing else.
	verifKnown("KF-C08-callback-after-concurrent-close", true)
	verifAssert(!late, "C08.overlap-no-callback-after-logout")
}

// verif_C08_conn_isolation: nothing of a connection outlives it. On one Server
// a conversation B (a complete DATA transaction with pipelined commands) is run
// first, then a connection A that ends in one of ten ways - QUIT, the error
// threshold, an over-long line or a backend panic with further commands already
// buffered; cut or timed out in the middle of a DATA body or a BDAT chunk; an
// over-long body line; or normally - and then B again. The second B gets
// exactly the replies and causes exactly the callbacks of the first: no
// buffered input, reader, error or transaction state of A (or of the first B)
// is ever seen by a later connection, whatever the library recycles.
func verif_C08_conn_isolation() { verifConnIsolation("C08") }

func verifConnIsolation(prop string) {
	verifPreemptBound(0)
	verifSchedForkBound(0)
	convB := "EHLO b\r\nMAIL FROM:<s@v>\r\nRCPT TO:<r@v>\r\nDATA\r\nhi\r\n.\r\nNOOP\r\nQUIT\r\n"
	long := "NOOP 567890123456789012345678901234567890123456789012345678901234567890"
	left := "EHLO left\r\nMAIL FROM:<left@v>\r\n"
	open := "EHLO a\r\nMAIL FROM:<a@v>\r\nRCPT TO:<ra@v>\r\n"
	variants := []string{
		"EHLO a\r\nQUIT\r\n" + left,
		"EHLO a\r\nFROB\r\nFROB\r\nFROB\r\nFROB\r\n" + left,
		"EHLO a\r\n" + long + "\r\n" + left,
		"EHLO a\r\nMAIL FROM:<panic@v>\r\n" + left,
		open + "DATA\r\nhalf a mess",
		open + "DATA\r\nhalf a message\r\nand more\r\n.\r\n" + left, // with a read timeout inside the body
		open + "DATA\r\n" + long + "\r\n.\r\n" + left,
		open + "BDAT 9\r\nhalf",
		open + "BDAT 9 LAST\r\nhalf a ch" + left, // with a read timeout inside the chunk
		convB,
	}
	a := verifChoice(len(variants))
	be := &vbackend{}
	be.mailErr = func(from string) error {
		if from == "panic@v" {
			panic("verif: injected backend panic")
		}
		return nil
	}
	var bodies []string
	be.dataFn = func(_ *vsession, r io.Reader) error {
		b, e := verifReadAll(r, 4)
		bodies = append(bodies, string(b))
		if e != io.EOF {
			return e
		}
		return nil
	}
	s, _ := verifServer(be)
	s.MaxLineLength = 60
	s.ReadTimeout = time.Second
	type obs struct {
		out   string
		calls []string
		body  []string
	}
	run := func(in string, fault int) obs {
		var o obs
		tmark, bmark := len(be.trace), len(bodies)
		vc := &vconn{in: []byte(in), final: io.EOF}
		if fault >= 0 {
			vc.faults = map[int]error{fault: verifTimeoutErr{}}
		}
		c := newConn(vc, s)
		s.handleConn(c)
		verifSettle()
		o.out = string(vc.out)
		for _, e := range be.trace[tmark:] {
			o.calls = append(o.calls, e.kind+" "+e.arg)
		}
		o.body = append(o.body, bodies[bmark:]...)
		return o
	}
	b1 := run(convB, -1)
	fault := -1
	switch a {
	case 5:
		fault = len(open) + len("DATA\r\nhalf a m")
	case 8:
		fault = len(open) + len("BDAT 9 LAST\r\nhal")
	}
	run(variants[a], fault)
	b2 := run(convB, -1)
	verifObserve(prop+".conniso", a, len(b1.out), len(b2.out), len(b1.calls), len(b2.calls))
	reps, wf := verifParseReplies([]byte(b1.out))
	verifAssert(wf && len(reps) == 8 && reps[5].code == 250 && reps[7].code == 221, prop+".conn-isolation-reference")
	verifAssert(b1.out == b2.out, prop+".conn-isolation-same-replies")
	verifAssert(len(b1.calls) == len(b2.calls), prop+".conn-isolation-same-callbacks")
	if len(b1.calls) == len(b2.calls) {
		for i := range b1.calls {
			verifAssert(b1.calls[i] == b2.calls[i], prop+".conn-isolation-same-callbacks")
		}
	}
	verifAssert(len(b1.body) == 1 && len(b2.body) == 1 && b1.body[0] == b2.body[0], prop+".conn-isolation-same-message")
	verifAssert(verifGoroutinesAlive() == 0, prop+".conn-isolation-no-goroutine-left")
	verifReach(prop + ".conn-isolation-end")
}
func verif_C08_failed_starttls_stub() { verifFailedStartTLS("C08") }
func verif_C08_starttls_close_stub()  { verifStartTLSClose("C08") }
func verif_C08_chunk_timeout()        { verifChunkTimeout("C08") }
