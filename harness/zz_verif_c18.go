package smtp

import (
	"io"
	"strconv"
)

type vstatus struct {
	rcpt string
	code int // 0 = accepted (nil status)
}

// verif_C18_script: an LMTP client against a scripted peer. One to T
// consecutive transactions on the same connection, one or two recipients
// each, every recipient accepted or refused at RCPT time, every accepted one
// with its own final verdict. With a callback: it fires exactly once per
// recipient accepted in *that* transaction, in order, with that recipient's
// verdict, and Close returns having consumed exactly those replies. Without a
// callback: a refusal after DATA surfaces as Close's error.
func verif_C18_script() {
	T := verifBound(2, 3)
	nt := nondetInt(1, T)
	c, vc := verifClient("", nil)
	c.lmtp = true
	for t := 0; t < nt; t++ {
		// chosen per transaction: a later transaction must not inherit the
		// earlier one's callback
		cbMode := verifChoice(3) // 0 LMTPData with a callback, 1 Data(), 2 LMTPData(nil)
		withCb := cbMode == 0
		nr := nondetInt(1, 2)
		script := "250 2.0.0 ok\r\n"
		var want []vstatus
		accepted := make([]bool, nr)
		anyRefusal := false
		for i := 0; i < nr; i++ {
			accepted[i] = nondetBool()
			if accepted[i] {
				script += "250 2.1.5 ok\r\n"
			} else {
				script += "550 5.1.1 no such user\r\n"
			}
		}
		assume(accepted[0] || (nr > 1 && accepted[1]))
		script += "354 go\r\n"
		for i := 0; i < nr; i++ {
			if !accepted[i] {
				continue
			}
			addr := "r" + strconv.Itoa(t) + strconv.Itoa(i) + "@v"
			if nondetBool() {
				script += "250 2.0.0 <" + addr + "> delivered\r\n"
				want = append(want, vstatus{addr, 0})
			} else {
				code := []int{450, 550}[verifChoice(2)]
				script += strconv.Itoa(code) + " " + strconv.Itoa(code/100) + ".2.0 <" + addr + "> refused\r\n"
				want = append(want, vstatus{addr, code})
				anyRefusal = true
			}
		}
		start := len(vc.in)
		vc.in = append(vc.in, script...)
		_ = start
		verifAssert(c.Mail("s"+strconv.Itoa(t)+"@v", nil) == nil, "C18.mail-accepted")
		for i := 0; i < nr; i++ {
			addr := "r" + strconv.Itoa(t) + strconv.Itoa(i) + "@v"
			err := c.Rcpt(addr, nil)
			verifAssert((err == nil) == accepted[i], "C18.rcpt-verdict")
		}
		var got []vstatus
		var w io.WriteCloser
		var err error
		if withCb {
			w, err = c.LMTPData(func(rcpt string, st *SMTPError) {
				code := 0
				if st != nil {
					code = st.Code
				}
				got = append(got, vstatus{rcpt, code})
			})
		} else if cbMode == 1 {
			w, err = c.Data()
		} else {
			w, err = c.LMTPData(nil)
		}
		verifAssert(err == nil, "C18.data-started")
		if err != nil {
			return
		}
		w.Write([]byte("x\r\n"))
		cerr := w.Close()
		verifObserve("c18", t, nr, withCb, len(want), len(got), cerr == nil, vc.pos, len(vc.in))
		verifAssert(vc.pos == len(vc.in), "C18.close-consumes-exactly-this-transactions-replies")
		if withCb {
			verifReach("C18.with-callback")
			verifAssert(cerr == nil, "C18.close-ok-with-callback")
			verifAssert(len(got) == len(want), "C18.one-callback-per-accepted-recipient")
			if len(got) == len(want) {
				for i := range got {
					verifAssert(got[i] == want[i], "C18.callback-carries-own-recipient-and-verdict")
				}
			}
		} else {
			verifReach("C18.without-callback")
			if anyRefusal {
				verifAssert(cerr != nil, "C18.refusal-not-lost-without-callback")
			} else {
				verifAssert(cerr == nil, "C18.close-ok-without-callback")
			}
		}
		if cerr != nil && withCb {
			return
		}
	}
}
