package smtp

// verifValidScalar: r is a Unicode scalar value.
func verifValidScalar(r rune) bool {
	return r >= 0 && r <= 0x10FFFF && !(r >= 0xD800 && r <= 0xDFFF)
}

func verifIsXtextSafe(s string) bool {
	for i := 0; i < len(s); i++ {
		if s[i] < '!' || s[i] > '~' || s[i] == '=' {
			return false
		}
	}
	return true
}

// verif_C14_xtext: xtext (RFC 3461) encode/decode are exact inverses on all of
// 7-bit ASCII, and the encoded form is wire-safe (printable, no space, no '=').
func verif_C14_xtext() {
	n := verifBound(2, 3)
	s := nondetString(n)
	for i := 0; i < len(s); i++ {
		assume(s[i] < 0x80)
	}
	enc := encodeXtext(s)
	dec, err := decodeXtext(enc)
	verifObserve("xtext", s, enc, dec, err == nil)
	verifAssert(verifIsXtextSafe(enc), "C14.xtext-wire-safe")
	verifAssert(err == nil, "C14.xtext-decodes")
	verifAssert(dec == s, "C14.xtext-roundtrip")
	verifReach("C14.xtext-end")
}

// verif_C14_rune: one arbitrary Unicode scalar in a fixed context through each
// of the three address codecs and the server's decoder.
func verif_C14_rune() {
	r := nondetRune()
	assume(verifValidScalar(r))
	s := "a" + string(r) + "+"
	which := verifChoice(3)
	if which != 2 {
		// domain of the UTF-8 address forms per the statement: printable ASCII
		// or non-ASCII UTF-8 text (C0 controls and DEL are outside)
		assume(r >= 0x20 && r != 0x7f)
	}
	var enc string
	switch which {
	case 0:
		enc = encodeUTF8AddrXtext(s)
		verifAssert(verifIsXtextSafe(enc), "C14.utf8-addr-xtext-wire-safe")
	case 1:
		enc = encodeUTF8AddrUnitext(s)
		for i := 0; i < len(enc); i++ {
			verifAssert(enc[i] > ' ' && enc[i] != '=' && enc[i] != 0x7f, "C14.utf8-addr-unitext-wire-safe")
		}
	case 2:
		assume(r < 0x80)
		enc = encodeXtext(s)
		dec, err := decodeXtext(enc)
		verifObserve("rune-xtext", int(r), enc, dec, err == nil)
		verifAssert(err == nil && dec == s, "C14.xtext-roundtrip-scalar")
		verifReach("C14.rune-xtext")
		return
	}
	dec, err := decodeUTF8AddrXtext(enc)
	verifObserve("rune", int(r), which, enc, dec, err == nil)
	verifAssert(err == nil, "C14.utf8-addr-decodes")
	verifAssert(dec == s, "C14.utf8-addr-roundtrip")
	verifReach("C14.rune-end")
}
