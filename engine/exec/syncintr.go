package exec

import (
	"fmt"
	"go/types"

	"verif/gosym/sym"
)

// sync, sync/atomic, time intrinsics. State lives in a side table keyed by
// the address of the Go object (per path).

func init() {
	reg("(*sync.Mutex).Lock", func(ex *Exec, fr *frame, a []value) value {
		p := a[0].(*value)
		ex.preemptPoint("Mutex.Lock")
		m := ex.mutexOf(p)
		ex.blockUntil(func() bool { return !m.locked && m.readers == 0 }, "Mutex.Lock")
		m.locked = true
		ex.hbJoin(ex.cur, m.vc)
		return nil
	})
	reg("(*sync.Mutex).TryLock", func(ex *Exec, fr *frame, a []value) value {
		m := ex.mutexOf(a[0].(*value))
		if m.locked || m.readers > 0 {
			return false
		}
		m.locked = true
		ex.hbJoin(ex.cur, m.vc)
		return true
	})
	reg("(*sync.Mutex).Unlock", func(ex *Exec, fr *frame, a []value) value {
		m := ex.mutexOf(a[0].(*value))
		if !m.locked {
			ex.fatal("sync: unlock of unlocked mutex")
		}
		m.vc = ex.hbSnapshot(ex.cur)
		m.locked = false
		ex.preemptPoint("Mutex.Unlock")
		return nil
	})
	reg("(*sync.RWMutex).Lock", func(ex *Exec, fr *frame, a []value) value {
		ex.preemptPoint("RWMutex.Lock")
		m := ex.mutexOf(a[0].(*value))
		ex.blockUntil(func() bool { return !m.locked && m.readers == 0 }, "RWMutex.Lock")
		m.locked = true
		ex.hbJoin(ex.cur, m.vc)
		return nil
	})
	reg("(*sync.RWMutex).Unlock", func(ex *Exec, fr *frame, a []value) value {
		m := ex.mutexOf(a[0].(*value))
		if !m.locked {
			ex.fatal("sync: Unlock of unlocked RWMutex")
		}
		m.vc = ex.hbSnapshot(ex.cur)
		m.locked = false
		ex.preemptPoint("RWMutex.Unlock")
		return nil
	})
	reg("(*sync.RWMutex).RLock", func(ex *Exec, fr *frame, a []value) value {
		ex.preemptPoint("RWMutex.RLock")
		m := ex.mutexOf(a[0].(*value))
		ex.blockUntil(func() bool { return !m.locked }, "RWMutex.RLock")
		m.readers++
		ex.hbJoin(ex.cur, m.vc)
		return nil
	})
	reg("(*sync.RWMutex).RUnlock", func(ex *Exec, fr *frame, a []value) value {
		m := ex.mutexOf(a[0].(*value))
		if m.readers <= 0 {
			ex.fatal("sync: RUnlock of unlocked RWMutex")
		}
		m.readers--
		s := ex.hbSnapshot(ex.cur)
		m.vc.join(s)
		ex.preemptPoint("RWMutex.RUnlock")
		return nil
	})
	reg("(*sync.Once).Do", func(ex *Exec, fr *frame, a []value) value {
		p := a[0].(*value)
		var st *onceState
		if s, ok := ex.sideTab[p]; ok {
			st = s.(*onceState)
		} else {
			st = &onceState{}
			ex.sideTab[p] = st
		}
		if st.done {
			ex.hbJoin(ex.cur, st.vc)
			return nil
		}
		if st.running {
			ex.blockUntil(func() bool { return st.done }, "Once.Do")
			ex.hbJoin(ex.cur, st.vc)
			return nil
		}
		st.running = true
		defer func() {
			st.vc = ex.hbSnapshot(ex.cur)
			st.done = true
		}()
		ex.call(fr, a[1], nil)
		return nil
	})
	wgOf := func(ex *Exec, p *value) *wgState {
		if s, ok := ex.sideTab[p]; ok {
			return s.(*wgState)
		}
		s := &wgState{}
		ex.sideTab[p] = s
		return s
	}
	reg("(*sync.WaitGroup).Add", func(ex *Exec, fr *frame, a []value) value {
		w := wgOf(ex, a[0].(*value))
		d := ex.concInt(a[1], 64, true, 8, "WaitGroup.Add")
		w.n += d
		if w.n < 0 {
			panic(targetPanic{iface{ex.prog.runtimeErrorString, "sync: negative WaitGroup counter"}})
		}
		if d > 0 && w.n == d && ex.hbOn() {
			// "calls with a positive delta that occur when the counter is zero
			// must happen before a Wait": modelled as the race detector does
			if w.sema == nil {
				w.sema = new(value)
			}
			old := ex.hbWhat
			ex.hbWhat = "WaitGroup (Add from zero concurrent with Wait)"
			// (the access is attributed to the function that calls Add)
			savedFr := ex.cur.fr
			if fr != nil && fr.caller != nil {
				ex.cur.fr = fr.caller
			}
			ex.hbRead(w.sema)
			ex.cur.fr = savedFr
			ex.hbWhat = old
		}
		if d < 0 {
			s := ex.hbSnapshot(ex.cur)
			w.vc.join(s)
			ex.preemptPoint("WaitGroup.Done")
		}
		return nil
	})
	reg("(*sync.WaitGroup).Done", func(ex *Exec, fr *frame, a []value) value {
		w := wgOf(ex, a[0].(*value))
		w.n--
		if w.n < 0 {
			panic(targetPanic{iface{ex.prog.runtimeErrorString, "sync: negative WaitGroup counter"}})
		}
		s := ex.hbSnapshot(ex.cur)
		w.vc.join(s)
		ex.preemptPoint("WaitGroup.Done")
		return nil
	})
	reg("(*sync.WaitGroup).Wait", func(ex *Exec, fr *frame, a []value) value {
		w := wgOf(ex, a[0].(*value))
		ex.preemptPoint("WaitGroup.Wait")
		if w.n != 0 && ex.hbOn() {
			if w.waiters == 0 {
				if w.sema == nil {
					w.sema = new(value)
				}
				old := ex.hbWhat
				ex.hbWhat = "WaitGroup (Add from zero concurrent with Wait)"
				savedFr := ex.cur.fr
				if fr != nil && fr.caller != nil {
					ex.cur.fr = fr.caller
				}
				ex.hbWrite(w.sema)
				ex.cur.fr = savedFr
				ex.hbWhat = old
			}
			w.waiters++
			defer func() { w.waiters-- }()
		}
		ex.blockUntil(func() bool { return w.n == 0 }, "WaitGroup.Wait")
		ex.hbJoin(ex.cur, w.vc)
		return nil
	})
	// sync.Pool: a LIFO free list per pool (what a single P does between two
	// collections); an object that was Put is handed out again by the next Get,
	// so that state left in a recycled object is visible to the code under test.
	type poolState struct {
		free []value
		vcs  []vclock // happens-before: a Put is ordered before the Get that returns the object
	}
	poolOf := func(ex *Exec, p *value) *poolState {
		if s, ok := ex.sideTab[p].(*poolState); ok {
			return s
		}
		s := &poolState{}
		ex.sideTab[p] = s
		return s
	}
	reg("(*sync.Pool).Get", func(ex *Exec, fr *frame, a []value) value {
		p := a[0].(*value)
		if ps := poolOf(ex, p); len(ps.free) > 0 {
			x := ps.free[len(ps.free)-1]
			ps.free = ps.free[:len(ps.free)-1]
			ex.hbJoin(ex.cur, ps.vcs[len(ps.vcs)-1])
			ps.vcs = ps.vcs[:len(ps.vcs)-1]
			return x
		}
		st := (*p).(structure)
		// field "New" is the last field of sync.Pool
		newf := st[len(st)-1]
		if isNilFunc(newf) {
			return iface{}
		}
		return ex.call(fr, newf, nil)
	})
	reg("(*sync.Pool).Put", func(ex *Exec, fr *frame, a []value) value {
		if i, ok := a[1].(iface); ok && i.t == nil {
			return nil
		}
		ps := poolOf(ex, a[0].(*value))
		ps.free = append(ps.free, a[1])
		ps.vcs = append(ps.vcs, ex.hbSnapshot(ex.cur))
		return nil
	})

	// ---- sync/atomic: single baton => plain loads and stores are atomic -----
	for _, tn := range []string{"Int32", "Int64", "Uint32", "Uint64", "Uintptr"} {
		tn := tn
		w := uint8(64)
		if tn == "Int32" || tn == "Uint32" {
			w = 32
		}
		reg("sync/atomic.Load"+tn, func(ex *Exec, fr *frame, a []value) value { return *a[0].(*value) })
		reg("sync/atomic.Store"+tn, func(ex *Exec, fr *frame, a []value) value { *a[0].(*value) = a[1]; return nil })
		reg("sync/atomic.Swap"+tn, func(ex *Exec, fr *frame, a []value) value {
			p := a[0].(*value)
			old := *p
			*p = a[1]
			return old
		})
		reg("sync/atomic.Add"+tn, func(ex *Exec, fr *frame, a []value) value {
			p := a[0].(*value)
			k := kind{w, false, clsInt}
			*p = ex.intBinopAdd(k, *p, a[1])
			return *p
		})
		reg("sync/atomic.CompareAndSwap"+tn, func(ex *Exec, fr *frame, a []value) value {
			p := a[0].(*value)
			if ex.branch(ex.eqv(nil, *p, a[1])) {
				*p = a[2]
				return true
			}
			return false
		})
	}
	reg("sync/atomic.LoadPointer", func(ex *Exec, fr *frame, a []value) value { return *a[0].(*value) })
	reg("sync/atomic.StorePointer", func(ex *Exec, fr *frame, a []value) value { *a[0].(*value) = a[1]; return nil })
	reg("sync/atomic.CompareAndSwapPointer", func(ex *Exec, fr *frame, a []value) value {
		p := a[0].(*value)
		if (*p).(*value) == a[1].(*value) {
			*p = a[2]
			return true
		}
		return false
	})

	// ---- time ---------------------------------------------------------------
	reg("time.Now", func(ex *Exec, fr *frame, a []value) value {
		tp := ex.prog.SSA.ImportedPackage("time")
		st := zero(tp.Type("Time").Type()).(structure)
		// wall=0, ext=seconds since year 1 (a fixed instant plus the harness clock), loc=nil (UTC)
		ex.clock += 1
		st[1] = uint64(63_000_000_000 + ex.clock)
		return st
	})
	reg("time.Sleep", func(ex *Exec, fr *frame, a []value) value {
		ex.sleeps = append(ex.sleeps, a[0])
		ex.preemptPoint("Sleep")
		return nil
	})
	reg("time.Since", func(ex *Exec, fr *frame, a []value) value { return uint64(0) })
	harnessAPI["verifSleeps"] = func(ex *Exec, fr *frame, a []value) value {
		out := make([]value, len(ex.sleeps))
		copy(out, ex.sleeps)
		return out
	}
}

// fatal models Go's uncatchable "fatal error" (e.g. unlock of unlocked mutex).
func (ex *Exec) fatal(msg string) {
	ex.ps.panics = append(ex.ps.panics, "fatal: "+msg)
	ex.violationNow("fatal-error", msg)
	panic(pathAbort{abortEndPath, "fatal error: " + msg})
}

func (ex *Exec) intBinopAdd(k kind, x, y value) value {
	xu, xc := x.(uint64)
	yu, yc := y.(uint64)
	if xc && yc {
		return (xu + yu) & maskW(k.w)
	}
	return norm(ex.ctx.Bin(sym.OpAdd, ex.termOf(x, k.w), ex.termOf(y, k.w)))
}

var _ = fmt.Sprint
var _ types.Type
