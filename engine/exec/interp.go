package exec

import (
	"fmt"
	"go/token"
	"go/types"
	"strings"
	"sync"

	"golang.org/x/tools/go/ssa"

	"verif/gosym/sym"
)

// Program is the immutable, shared part: the SSA of /repo's current tree plus
// harness overlay.
type Program struct {
	Fset               *token.FileSet
	SSA                *ssa.Program
	Pkg                *ssa.Package // the package under test (with harness files)
	runtimeErrorString types.Type
	AllowPkgs          map[string]bool // packages whose functions are executed from source
	InitPkgs           map[string]bool // packages whose initialisers are executed
	mu                 sync.Mutex
	infos              map[*ssa.Function]*funcInfo
}

type funcInfo struct {
	slots     map[ssa.Value]int
	n         int
	override  intrinsic
	hbTracked int8
	allowed   bool
	name      string
	nInstr    int
}

type intrinsic func(ex *Exec, fr *frame, args []value) value

func (p *Program) info(fn *ssa.Function) *funcInfo {
	p.mu.Lock()
	defer p.mu.Unlock()
	if fi, ok := p.infos[fn]; ok {
		return fi
	}
	fi := &funcInfo{slots: map[ssa.Value]int{}, name: fn.String()}
	add := func(v ssa.Value) {
		fi.slots[v] = fi.n
		fi.n++
	}
	for _, p := range fn.Params {
		add(p)
	}
	for _, fv := range fn.FreeVars {
		add(fv)
	}
	for _, b := range fn.Blocks {
		for _, in := range b.Instrs {
			fi.nInstr++
			if v, ok := in.(ssa.Value); ok {
				add(v)
			}
		}
	}
	fi.override = lookupIntrinsic(fn, fi.name)
	pkg := fn.Pkg
	if pkg == nil {
		if o := fn.Origin(); o != nil {
			pkg = o.Pkg
		}
	}
	if pkg == nil && fn.Parent() != nil {
		par := fn
		for par.Parent() != nil {
			par = par.Parent()
		}
		pkg = par.Pkg
		if pkg == nil && par.Origin() != nil {
			pkg = par.Origin().Pkg
		}
	}
	if pkg != nil {
		fi.allowed = p.AllowPkgs[pkg.Pkg.Path()]
		if !fi.allowed {
			// single source files of otherwise intrinsic packages (fmt's scanner)
			if files := AllowFiles[pkg.Pkg.Path()]; files != nil {
				top := fn
				for top.Parent() != nil {
					top = top.Parent()
				}
				pos := fn.Pos()
				if !pos.IsValid() {
					pos = top.Pos()
				}
				if !pos.IsValid() && top.Origin() != nil {
					pos = top.Origin().Pos()
				}
				if !pos.IsValid() && fn.Name() == "init" && fn.Synthetic != "" {
					fi.allowed = true // the package initialiser
				}
				if AllowFuncs[fi.name] || strings.HasPrefix(fi.name, "(*fmt.buffer).") {
					fi.allowed = true
				} else if pos.IsValid() {
					f := p.Fset.Position(pos).Filename
					if i := strings.LastIndexByte(f, '/'); i >= 0 {
						f = f[i+1:]
					}
					fi.allowed = files[f]
				}
			}
		}
	} else {
		// synthetic wrappers / thunks / bound methods: judged by their callee
		fi.allowed = true
	}
	p.infos[fn] = fi
	return fi
}

// Exec is one worker's mutable state.
type Exec struct {
	prog           *Program
	ctx            *sym.Ctx
	solver         *sym.Solver
	solver2        *sym.Solver // optional second solver re-discharging assertion queries
	Solver2Queries int64
	Solver2Unknown int64

	persistGlobals map[*ssa.Global]*value
	pathGlobals    map[*ssa.Global]*value
	persistInited  map[*ssa.Package]bool
	pathInited     map[*ssa.Package]bool

	ps pathState

	// scheduler state (sched.go)
	gs             []*goroutine
	cur            *goroutine
	dead           bool
	sideTab        map[*value]interface{} // mutex/once/waitgroup/tls-stub state keyed by object address
	persistSideTab map[*value]interface{}
	hb             *hbState

	knownIDs map[string]bool
	MaxSteps int64
	Tier     int // 0 quick, 1 thorough
	MapRev   bool

	funcsSeen      map[*ssa.Function]int
	intrinsicsSeen map[string]int
	regexps        map[string]*vregexp
	mcache         map[mkey]*ssa.Function

	PreemptBound        int
	SchedForkBound      int
	PreemptBoundDefault int
	WitnessMode         bool
	witnessed           map[string]bool
	pendingAbort        *pathAbort
	sampleCount         int
	pinNext             *pinSpec
	hbFilter            func(*frame) bool
	hbWhat              string
	raceReported        map[string]bool
	clock               uint64
	FastPath            bool
	CrossCheck          bool
	FastDecided         int64
	sleeps              []value
}

type mkey struct {
	t    types.Type
	name string
}

type deferred struct {
	fn    value
	args  []value
	instr *ssa.Defer
	tail  *deferred
}

type frame struct {
	ex               *Exec
	g                *goroutine
	caller           *frame
	fn               *ssa.Function
	info             *funcInfo
	block, prevBlock *ssa.BasicBlock
	env              []value
	locals           []value
	defers           *deferred
	result           value
	panicking        bool
	panic            interface{}
	curPos           token.Pos
	phitemps         []value
}

func NewExec(p *Program, solver *sym.Solver) *Exec {
	return &Exec{
		prog: p, ctx: sym.NewCtx(), solver: solver,
		persistGlobals: map[*ssa.Global]*value{},
		persistInited:  map[*ssa.Package]bool{},
		knownIDs:       map[string]bool{},
		MaxSteps:       20_000_000,
		funcsSeen:      map[*ssa.Function]int{},
		intrinsicsSeen: map[string]int{},
		witnessed:      map[string]bool{},
		raceReported:   map[string]bool{},
		regexps:        map[string]*vregexp{},
		mcache:         map[mkey]*ssa.Function{},
	}
}

func (ex *Exec) isPathPkg(p *ssa.Package) bool { return p == ex.prog.Pkg }

// global returns the cell of g, initialising its package on demand.
func (ex *Exec) global(g *ssa.Global) *value {
	pkg := g.Pkg
	if ex.isPathPkg(pkg) {
		if c, ok := ex.pathGlobals[g]; ok {
			return c
		}
	} else if c, ok := ex.persistGlobals[g]; ok {
		return c
	}
	ex.ensureInit(pkg)
	if ex.isPathPkg(pkg) {
		return ex.pathGlobals[g]
	}
	return ex.persistGlobals[g]
}

func (ex *Exec) ensureInit(pkg *ssa.Package) {
	path := ex.isPathPkg(pkg)
	if path {
		if ex.pathInited[pkg] {
			return
		}
		ex.pathInited[pkg] = true
	} else {
		if ex.persistInited[pkg] {
			return
		}
		ex.persistInited[pkg] = true
	}
	for _, m := range pkg.Members {
		if g, ok := m.(*ssa.Global); ok {
			cell := zero(deref(g.Type()))
			if path {
				ex.pathGlobals[g] = &cell
			} else {
				ex.persistGlobals[g] = &cell
			}
		}
	}
	if !ex.prog.InitPkgs[pkg.Pkg.Path()] {
		presetGlobals(ex, pkg)
		return
	}
	if init := pkg.Func("init"); init != nil && init.Blocks != nil {
		// Run the package initialiser. Imported packages are initialised
		// lazily on first use (their init calls are skipped in callSSA).
		saved := ex.cur
		if ex.cur == nil {
			ex.cur = &goroutine{id: -1}
		}
		ex.callSSA(nil, init, nil, nil)
		ex.cur = saved
	}
	presetGlobals(ex, pkg)
}

func deref(t types.Type) types.Type {
	if p, ok := t.Underlying().(*types.Pointer); ok {
		return p.Elem()
	}
	panic(fmt.Sprintf("deref: not a pointer: %s", t))
}

func (fr *frame) get(key ssa.Value) value {
	switch key := key.(type) {
	case nil:
		return nil
	case *ssa.Function:
		return key
	case *ssa.Builtin:
		return key
	case *ssa.Const:
		return constValue(key)
	case *ssa.Global:
		return fr.ex.global(key)
	}
	if i, ok := fr.info.slots[key]; ok {
		return fr.env[i]
	}
	panic(fmt.Sprintf("get: no value for %T: %v in %s", key, key.Name(), fr.fn))
}

func (fr *frame) set(key ssa.Value, v value) {
	fr.env[fr.info.slots[key]] = v
}

func (fr *frame) runDefer(d *deferred) {
	var ok bool
	defer func() {
		if !ok {
			p := recover()
			if pa, isAbort := p.(pathAbort); isAbort {
				panic(pa)
			}
			fr.panicking = true
			fr.panic = p
		}
	}()
	fr.ex.call(fr, d.fn, d.args)
	ok = true
}

func (fr *frame) runDefers() {
	for d := fr.defers; d != nil; d = d.tail {
		fr.runDefer(d)
	}
	fr.defers = nil
	if fr.panicking {
		panic(fr.panic)
	}
}

func (ex *Exec) lookupMethod(typ types.Type, meth *types.Func) *ssa.Function {
	k := mkey{typ, meth.Id()}
	if f, ok := ex.mcache[k]; ok {
		return f
	}
	f := ex.prog.SSA.LookupMethod(typ, meth.Pkg(), meth.Name())
	ex.mcache[k] = f
	return f
}

func (ex *Exec) visitInstr(fr *frame, instr ssa.Instruction) (ret bool) {
	if p := instr.Pos(); p.IsValid() {
		fr.curPos = p
		ex.ps.curPos = p
	}
	switch instr := instr.(type) {
	case *ssa.DebugRef:
	case *ssa.UnOp:
		if ex.hb != nil && instr.Op == token.MUL {
			ex.hbWhat = accessDesc(instr.X)
		}
		fr.set(instr, ex.unop(instr, fr.get(instr.X)))
	case *ssa.BinOp:
		fr.set(instr, ex.binop(instr.Op, instr.X.Type(), instr.Y.Type(), fr.get(instr.X), fr.get(instr.Y)))
	case *ssa.Call:
		fn, args := ex.prepareCall(fr, &instr.Call)
		fr.set(instr, ex.call(fr, fn, args))
	case *ssa.ChangeInterface:
		fr.set(instr, fr.get(instr.X))
	case *ssa.ChangeType:
		fr.set(instr, fr.get(instr.X))
	case *ssa.Convert:
		fr.set(instr, ex.conv(instr.Type(), instr.X.Type(), fr.get(instr.X)))
	case *ssa.SliceToArrayPointer:
		ex.inconclusive("SliceToArrayPointer unsupported")
	case *ssa.MakeInterface:
		fr.set(instr, iface{t: instr.X.Type(), v: fr.get(instr.X)})
	case *ssa.Extract:
		fr.set(instr, fr.get(instr.Tuple).(tuple)[instr.Index])
	case *ssa.Slice:
		fr.set(instr, ex.slice(instr, fr.get(instr.X), fr.get(instr.Low), fr.get(instr.High), fr.get(instr.Max)))
	case *ssa.Return:
		switch len(instr.Results) {
		case 0:
		case 1:
			fr.result = fr.get(instr.Results[0])
		default:
			res := make(tuple, len(instr.Results))
			for i, r := range instr.Results {
				res[i] = fr.get(r)
			}
			fr.result = res
		}
		fr.block = nil
		return true
	case *ssa.RunDefers:
		fr.runDefers()
	case *ssa.Panic:
		panic(targetPanic{fr.get(instr.X)})
	case *ssa.Send:
		ex.chanSend(fr.get(instr.Chan).(*vchan), fr.get(instr.X))
	case *ssa.Store:
		if se, ok := fr.get(instr.Addr).(*symElem); ok {
			// store through a symbolic index: concretise now
			i := ex.index(se.idx, se.it, len(se.arr))
			se.arr[i] = fr.get(instr.Val)
			break
		}
		p := fr.get(instr.Addr).(*value)
		if p == nil {
			ex.rtPanic("invalid memory address or nil pointer dereference")
		}
		if ex.hb != nil {
			ex.hbWhat = accessDesc(instr.Addr)
		}
		ex.hbWrite(p)
		store(deref(instr.Addr.Type()), p, fr.get(instr.Val))
	case *ssa.If:
		succ := 1
		if ex.branch(fr.get(instr.Cond)) {
			succ = 0
		}
		fr.prevBlock, fr.block = fr.block, fr.block.Succs[succ]
	case *ssa.Jump:
		fr.prevBlock, fr.block = fr.block, fr.block.Succs[0]
	case *ssa.Defer:
		fn, args := ex.prepareCall(fr, &instr.Call)
		defers := &fr.defers
		if instr.DeferStack != nil {
			if into := fr.get(instr.DeferStack); into != nil {
				defers = into.(**deferred)
			}
		}
		*defers = &deferred{fn: fn, args: args, instr: instr, tail: *defers}
	case *ssa.Go:
		fn, args := ex.prepareCall(fr, &instr.Call)
		ex.spawn(fr, fn, args)
	case *ssa.MakeChan:
		n := ex.concInt(fr.get(instr.Size), 64, true, 16, "channel capacity")
		fr.set(instr, ex.newChan(int(n)))
	case *ssa.Alloc:
		var addr *value
		if instr.Heap {
			addr = new(value)
			fr.set(instr, addr)
		} else {
			addr = fr.get(instr).(*value)
		}
		*addr = zero(deref(instr.Type()))
	case *ssa.MakeSlice:
		ln := ex.concInt(fr.get(instr.Len), 64, true, 64, "make len")
		cp := ex.concInt(fr.get(instr.Cap), 64, true, 64, "make cap")
		if ln < 0 || cp < ln {
			ex.rtPanic("makeslice: len out of range")
		}
		if cp > 1<<24 {
			ex.inconclusive("make: slice too large for the executor")
		}
		sl := make([]value, cp)
		z := zero(instr.Type().Underlying().(*types.Slice).Elem())
		switch z.(type) {
		case structure, array:
			tE := instr.Type().Underlying().(*types.Slice).Elem()
			for i := range sl {
				sl[i] = zero(tE)
			}
		default:
			for i := range sl {
				sl[i] = z
			}
		}
		fr.set(instr, sl[:ln])
	case *ssa.MakeMap:
		fr.set(instr, newMap(instr.Type().Underlying().(*types.Map).Key()))
	case *ssa.Range:
		fr.set(instr, ex.rangeIter(fr.get(instr.X), instr.X.Type()))
	case *ssa.Next:
		fr.set(instr, fr.get(instr.Iter).(iter).next(ex))
	case *ssa.FieldAddr:
		p := fr.get(instr.X).(*value)
		if p == nil {
			ex.rtPanic("invalid memory address or nil pointer dereference")
		}
		fr.set(instr, &(*p).(structure)[instr.Field])
	case *ssa.Field:
		fr.set(instr, fr.get(instr.X).(structure)[instr.Field])
	case *ssa.IndexAddr:
		x := fr.get(instr.X)
		switch x := x.(type) {
		case []value:
			idx := fr.get(instr.Index)
			if se := ex.symElemOf(x, idx, instr); se != nil {
				fr.set(instr, se)
				break
			}
			i := ex.index(idx, instr.Index.Type(), len(x))
			fr.set(instr, &x[i])
		case *value:
			if x == nil {
				ex.rtPanic("invalid memory address or nil pointer dereference")
			}
			a := (*x).(array)
			idx := fr.get(instr.Index)
			if se := ex.symElemOf([]value(a), idx, instr); se != nil {
				fr.set(instr, se)
				break
			}
			i := ex.index(idx, instr.Index.Type(), len(a))
			fr.set(instr, &a[i])
		default:
			panic(fmt.Sprintf("IndexAddr on %T", x))
		}
	case *ssa.Index:
		x := fr.get(instr.X)
		idx := fr.get(instr.Index)
		switch x := x.(type) {
		case array:
			fr.set(instr, ex.indexVal([]value(x), idx, instr.Index.Type(), instr.Type()))
		case string:
			if iu, ok := idx.(uint64); ok {
				i := ex.index(iu, instr.Index.Type(), len(x))
				fr.set(instr, uint64(x[i]))
			} else {
				fr.set(instr, ex.indexVal(ex.strOctets(x), idx, instr.Index.Type(), instr.Type()))
			}
		case symstr:
			fr.set(instr, ex.indexVal([]value(x), idx, instr.Index.Type(), instr.Type()))
		case opaque:
			ex.inconclusive("opaque string indexed: " + x.why)
		default:
			panic(fmt.Sprintf("Index on %T", x))
		}
	case *ssa.Lookup:
		fr.set(instr, ex.lookup(instr, fr.get(instr.X), fr.get(instr.Index)))
	case *ssa.MapUpdate:
		m, _ := fr.get(instr.Map).(*vmap)
		m.insert(ex, fr.get(instr.Key), copyVal(fr.get(instr.Value)))
	case *ssa.TypeAssert:
		fr.set(instr, ex.typeAssert(instr, fr.get(instr.X).(iface)))
	case *ssa.MakeClosure:
		var bindings []value
		for _, b := range instr.Bindings {
			bindings = append(bindings, fr.get(b))
		}
		fr.set(instr, &closure{instr.Fn.(*ssa.Function), bindings})
	case *ssa.Select:
		fr.set(instr, ex.doSelect(fr, instr))
	case *ssa.Phi:
		panic("unreachable: phi")
	default:
		panic(fmt.Sprintf("unexpected instruction: %T", instr))
	}
	return false
}

// index checks an index against a length, concretising a symbolic index by
// forking (bounded by the length) and raising the Go run-time panic when out
// of range.
func (ex *Exec) index(idx value, it types.Type, n int) int {
	k := basicKind(it)
	if t, ok := idx.(*sym.Term); ok {
		// can it be out of range?
		if !ex.branch(ex.inRange(t, k, n)) {
			ex.rtPanic(fmt.Sprintf("index out of range [sym] with length %d", n))
		}
		return int(ex.concretize(t, n+1, "index"))
	}
	u := idx.(uint64)
	var i int64
	if k.signed {
		i = sextW(u, k.w)
	} else {
		if u > 1<<62 {
			i = -1
		} else {
			i = int64(u)
		}
	}
	if i < 0 || i >= int64(n) {
		ex.rtPanic(fmt.Sprintf("index out of range [%d] with length %d", i, n))
	}
	return int(i)
}

// accessDesc names the memory location an address value denotes (for race reports).
func accessDesc(addr ssa.Value) string {
	switch a := addr.(type) {
	case *ssa.FieldAddr:
		st := deref(a.X.Type()).Underlying().(*types.Struct)
		tn := deref(a.X.Type()).String()
		if i := strings.LastIndex(tn, "."); i >= 0 {
			tn = tn[i+1:]
		}
		return tn + "." + st.Field(a.Field).Name()
	case *ssa.IndexAddr:
		return accessDesc0(a.X) + "[i]"
	case *ssa.Global:
		return "global " + a.Name()
	case *ssa.FreeVar:
		return "captured " + a.Name()
	case *ssa.Alloc:
		return "local " + a.Comment
	}
	return "memory"
}

func accessDesc0(v ssa.Value) string {
	if u, ok := v.(*ssa.UnOp); ok {
		return accessDesc(u.X)
	}
	return "slice"
}

// symElem is the address of arr[idx] for a symbolic idx into a table of
// integer scalars whose only uses are loads and stores: a load becomes an ite
// chain (indexVal) instead of a fork over every feasible index.
type symElem struct {
	arr []value
	idx value
	it  types.Type
	et  types.Type
}

func (ex *Exec) symElemOf(arr []value, idx value, instr *ssa.IndexAddr) *symElem {
	if _, ok := idx.(*sym.Term); !ok {
		return nil
	}
	et := deref(instr.Type())
	if basicKind(et).cls != clsInt || len(arr) > 512 {
		return nil
	}
	for _, r := range *instr.Referrers() {
		switch r := r.(type) {
		case *ssa.UnOp:
		case *ssa.Store:
			if r.Addr != instr {
				return nil
			}
		case *ssa.DebugRef:
		default:
			return nil
		}
	}
	return &symElem{arr: arr, idx: idx, it: instr.Index.Type(), et: et}
}

// inRange: 0 <= t < n for an index term of kind k (n may exceed the index
// type's range).
func (ex *Exec) inRange(t *sym.Term, k kind, n int) value {
	c := ex.ctx
	if k.signed {
		nonneg := c.Cmp(sym.OpSle, c.BV(0, k.w), t)
		if k.w < 64 && uint64(n) > maskW(k.w)>>1 {
			return norm(nonneg)
		}
		return norm(c.And(nonneg, c.Cmp(sym.OpSlt, t, c.BV(uint64(n), k.w))))
	}
	if k.w < 64 && uint64(n) > maskW(k.w) {
		return true
	}
	return norm(c.Cmp(sym.OpUlt, t, c.BV(uint64(n), k.w)))
}

// indexVal reads s[idx]; a symbolic index into a table of scalars becomes an
// ite chain over runs of constant slope (no fork).
func (ex *Exec) indexVal(s []value, idx value, it types.Type, et types.Type) value {
	t, ok := idx.(*sym.Term)
	if !ok {
		return copyVal(s[ex.index(idx, it, len(s))])
	}
	ek := basicKind(et)
	if ek.cls != clsInt || len(s) > 512 {
		return copyVal(s[ex.index(idx, it, len(s))])
	}
	k := basicKind(it)
	c := ex.ctx
	if !ex.branch(ex.inRange(t, k, len(s))) {
		ex.rtPanic(fmt.Sprintf("index out of range [sym] with length %d", len(s)))
	}
	// build runs: concrete entries with slope 0 or 1; symbolic entries alone
	type run struct {
		lo, hi int // inclusive
		base   value
		slope  uint64
	}
	var runs []run
	for i := 0; i < len(s); {
		u, conc := s[i].(uint64)
		if !conc {
			runs = append(runs, run{i, i, s[i], 0})
			i++
			continue
		}
		j := i + 1
		var slope uint64
		if j < len(s) {
			if u2, ok := s[j].(uint64); ok {
				if u2 == u {
					slope = 0
					j++
				} else if u2 == (u+1)&maskW(ek.w) {
					slope = 1
					j++
				}
				for j < len(s) {
					u3, ok := s[j].(uint64)
					if !ok || u3 != (u+slope*uint64(j-i))&maskW(ek.w) {
						break
					}
					j++
				}
			}
		}
		runs = append(runs, run{i, j - 1, u, slope})
		i = j
	}
	tw := c.Zext(t, 64)
	if k.w == 64 {
		tw = t
	}
	valOf := func(r run) *sym.Term {
		if r.slope == 0 {
			return ex.termOf(r.base, ek.w)
		}
		// base + (idx - lo), truncated to element width
		off := c.Bin(sym.OpSub, tw, c.BV(uint64(r.lo), 64))
		return c.Bin(sym.OpAdd, c.BV(r.base.(uint64), ek.w), c.Extract(off, ek.w-1, 0))
	}
	res := valOf(runs[len(runs)-1])
	for i := len(runs) - 2; i >= 0; i-- {
		r := runs[i]
		cond := c.Cmp(sym.OpUle, tw, c.BV(uint64(r.hi), 64))
		res = c.Ite(cond, valOf(r), res)
	}
	return norm(res)
}

func (ex *Exec) slice(instr *ssa.Slice, x, lo, hi, max value) value {
	conc := func(v value, why string, bound int) (int, bool) {
		if v == nil {
			return 0, false
		}
		if u, ok := v.(uint64); ok {
			i := int64(u)
			if i < 0 || i > int64(bound) {
				ex.rtPanic(fmt.Sprintf("slice bounds out of range [%s %d] with capacity %d", why, i, bound))
			}
			return int(i), true
		}
		t := v.(*sym.Term)
		c := ex.ctx
		inr := c.And(c.Cmp(sym.OpSle, c.BV(0, t.W), t), c.Cmp(sym.OpSle, t, c.BV(uint64(bound), t.W)))
		if !ex.branch(norm(inr)) {
			ex.rtPanic(fmt.Sprintf("slice bounds out of range [%s sym] with capacity %d", why, bound))
		}
		return int(ex.concretize(t, bound+2, "slice bound")), true
	}
	switch x := x.(type) {
	case string, symstr:
		n := ex.strLen(x)
		l, _ := conc(lo, "lo", n)
		h, ok := conc(hi, "hi", n)
		if !ok {
			h = n
		}
		if l > h {
			ex.rtPanic(fmt.Sprintf("slice bounds out of range [%d:%d]", l, h))
		}
		return strSlice(x, l, h)
	case opaque:
		ex.inconclusive("opaque string sliced: " + x.why)
	case []value:
		l, _ := conc(lo, "lo", cap(x))
		h, ok := conc(hi, "hi", cap(x))
		if !ok {
			h = len(x)
		}
		m, okm := conc(max, "max", cap(x))
		if !okm {
			m = cap(x)
		}
		if l > h || h > m {
			ex.rtPanic(fmt.Sprintf("slice bounds out of range [%d:%d:%d]", l, h, m))
		}
		if x == nil {
			return x
		}
		return x[l:h:m]
	case *value: // *array
		if x == nil {
			ex.rtPanic("invalid memory address or nil pointer dereference")
		}
		a := []value((*x).(array))
		l, _ := conc(lo, "lo", len(a))
		h, ok := conc(hi, "hi", len(a))
		if !ok {
			h = len(a)
		}
		m, okm := conc(max, "max", len(a))
		if !okm {
			m = len(a)
		}
		if l > h || h > m {
			ex.rtPanic(fmt.Sprintf("slice bounds out of range [%d:%d:%d]", l, h, m))
		}
		return a[l:h:m]
	}
	panic(fmt.Sprintf("slice: unexpected X type: %T", x))
}

func (ex *Exec) lookup(instr *ssa.Lookup, x, idx value) value {
	switch x := x.(type) {
	case *vmap:
		v, ok := x.lookup(ex, idx)
		if !ok {
			v = zero(instr.X.Type().Underlying().(*types.Map).Elem())
		} else {
			v = copyVal(v)
		}
		if instr.CommaOk {
			return tuple{v, ok}
		}
		return v
	case string, symstr:
		return ex.indexVal(ex.strOctets(x), idx, instr.Index.Type(), types.Typ[types.Uint8])
	}
	panic(fmt.Sprintf("lookup on %T", x))
}

func (ex *Exec) rangeIter(x value, t types.Type) iter {
	switch x := x.(type) {
	case *vmap:
		return &mapIter{m: x, rev: ex.MapRev}
	case string, symstr:
		return &stringIter{s: ex.strOctets(x)}
	case opaque:
		ex.inconclusive("range over opaque string")
	}
	panic(fmt.Sprintf("cannot range over %T", x))
}

func (ex *Exec) typeAssert(instr *ssa.TypeAssert, itf iface) value {
	var v value
	err := ""
	if itf.t == nil {
		err = fmt.Sprintf("interface conversion: interface is nil, not %s", instr.AssertedType)
	} else if idst, ok := instr.AssertedType.Underlying().(*types.Interface); ok {
		v = itf
		if meth, _ := types.MissingMethod(itf.t, idst, true); meth != nil {
			err = fmt.Sprintf("interface conversion: %v is not %v: missing method %s", itf.t, idst, meth.Name())
		}
	} else if types.Identical(itf.t, instr.AssertedType) {
		v = copyVal(itf.v)
	} else {
		err = fmt.Sprintf("interface conversion: interface is %s, not %s", itf.t, instr.AssertedType)
	}
	if err != "" {
		if !instr.CommaOk {
			ex.rtPanic(err)
		}
		return tuple{zero(instr.AssertedType), false}
	}
	if instr.CommaOk {
		return tuple{v, true}
	}
	return v
}

func (ex *Exec) prepareCall(fr *frame, call *ssa.CallCommon) (fn value, args []value) {
	v := fr.get(call.Value)
	if call.Method == nil {
		fn = v
	} else {
		recv := v.(iface)
		if recv.t == nil {
			ex.rtPanic("invalid memory address or nil pointer dereference (method call on nil interface)")
		}
		f := ex.lookupMethod(recv.t, call.Method)
		if f == nil {
			panic(fmt.Sprintf("method set for dynamic type %v does not contain %s", recv.t, call.Method))
		}
		fn = f
		args = append(args, recv.v)
	}
	for _, arg := range call.Args {
		args = append(args, fr.get(arg))
	}
	return
}

func (ex *Exec) call(caller *frame, fn value, args []value) value {
	switch fn := fn.(type) {
	case *ssa.Function:
		if fn == nil {
			ex.rtPanic("invalid memory address or nil pointer dereference (call of nil func)")
		}
		return ex.callSSA(caller, fn, args, nil)
	case *closure:
		if fn == nil {
			ex.rtPanic("invalid memory address or nil pointer dereference (call of nil func)")
		}
		return ex.callSSA(caller, fn.Fn, args, fn.Env)
	case *ssa.Builtin:
		return ex.callBuiltin(caller, fn, args)
	}
	panic(fmt.Sprintf("cannot call %T", fn))
}

func (ex *Exec) callSSA(caller *frame, fn *ssa.Function, args []value, env []value) value {
	info := ex.prog.info(fn)
	fr := &frame{ex: ex, caller: caller, fn: fn, info: info}
	if caller != nil {
		fr.g = caller.g
	} else {
		fr.g = ex.cur
	}
	if info.override != nil {
		ex.intrinsicsSeen[info.name]++
		saved := ex.cur.fr
		ex.cur.fr = fr
		r := info.override(ex, fr, args)
		ex.cur.fr = saved
		return r
	}
	// package initialisers of imported packages run lazily
	if fn.Synthetic == "package initializer" && caller != nil && caller.fn.Synthetic == "package initializer" {
		return nil
	}
	if fn.Blocks == nil {
		ex.inconclusive("no Go body for function " + info.name)
	}
	if !info.allowed {
		ex.inconclusive("unsupported callee (outside the encoded boundary): " + info.name)
	}
	if fn.TypeParams().Len() > 0 && len(fn.TypeArgs()) == 0 {
		ex.inconclusive("uninstantiated generic function " + info.name)
	}
	ex.funcsSeen[fn]++
	fr.env = make([]value, info.n)
	fr.block = fn.Blocks[0]
	if len(fn.Locals) > 0 {
		fr.locals = make([]value, len(fn.Locals))
		for i, l := range fn.Locals {
			fr.locals[i] = zero(deref(l.Type()))
			fr.env[info.slots[l]] = &fr.locals[i]
		}
	}
	for i, p := range fn.Params {
		fr.env[info.slots[p]] = args[i]
	}
	for i, fv := range fn.FreeVars {
		fr.env[info.slots[fv]] = env[i]
	}
	g := ex.cur
	saved := g.fr
	g.fr = fr
	g.depth++
	if g.depth > 2000 {
		ex.inconclusive("call depth exceeded")
	}
	for fr.block != nil {
		ex.runFrame(fr)
	}
	g.depth--
	g.fr = saved
	return fr.result
}

func (ex *Exec) runFrame(fr *frame) {
	defer func() {
		if fr.block == nil {
			return
		}
		p := recover()
		if pa, ok := p.(pathAbort); ok {
			panic(pa)
		}
		if _, ok := p.(targetPanic); !ok {
			// interpreter bug or Go run-time error inside the engine: never
			// let target code swallow it.
			panic(fmt.Sprintf("engine panic: %v%s", p, ex.where()))
		}
		fr.panicking = true
		fr.panic = p
		// restore goroutine frame bookkeeping
		ex.cur.fr = fr
		fr.runDefers()
		fr.block = fr.fn.Recover
	}()
	for {
		blk := fr.block
		instrs := blk.Instrs
		// phis
		np := 0
		for np < len(instrs) {
			if _, ok := instrs[np].(*ssa.Phi); !ok {
				break
			}
			np++
		}
		if np > 0 {
			pi := -1
			for i, p := range blk.Preds {
				if p == fr.prevBlock {
					pi = i
					break
				}
			}
			fr.phitemps = fr.phitemps[:0]
			for _, in := range instrs[:np] {
				fr.phitemps = append(fr.phitemps, fr.get(in.(*ssa.Phi).Edges[pi]))
			}
			for i, in := range instrs[:np] {
				fr.set(in.(*ssa.Phi), fr.phitemps[i])
			}
		}
		ex.ps.steps += int64(len(instrs) - np)
		if ex.ps.steps > ex.MaxSteps {
			panic(pathAbort{abortBudgetSteps, fmt.Sprintf("unwinding: step budget %d exceeded%s", ex.MaxSteps, ex.where())})
		}
		for _, in := range instrs[np:] {
			if ex.visitInstr(fr, in) {
				return
			}
		}
		if fr.block == blk && len(blk.Succs) == 0 {
			// block ended without transfer (after panic instr) - unreachable
			return
		}
	}
}

func (ex *Exec) doRecover(caller *frame) value {
	// recover() must be called directly by a deferred function of the
	// panicking frame.
	if caller != nil && !caller.panicking && caller.caller != nil && caller.caller.panicking {
		caller.caller.panicking = false
		p := caller.caller.panic
		caller.caller.panic = nil
		switch p := p.(type) {
		case targetPanic:
			ex.ps.panics = append(ex.ps.panics, "recovered: "+panicString(p.v))
			return p.v
		default:
			panic(fmt.Sprintf("unexpected panic type %T in recover()", p))
		}
	}
	return iface{}
}

func panicString(v value) string {
	if i, ok := v.(iface); ok {
		if s, ok := i.v.(string); ok {
			return s
		}
		return toString(i.v)
	}
	return toString(v)
}

func typeString(t types.Type) string {
	return types.TypeString(t, func(p *types.Package) string { return p.Path() })
}

func funcShortName(fn *ssa.Function) string {
	s := fn.String()
	s = strings.ReplaceAll(s, "github.com/emersion/go-smtp", "smtp")
	return s
}
