// Package exec: a symbolic executor over go/ssa.
//
// Value model (all values boxed in the empty interface `value`):
//
//	bool            concrete boolean          | *sym.Term of sort Bool
//	uint64          every integer kind; the bit pattern truncated to the
//	                static type's width, zero-extended | *sym.Term (BitVec w)
//	float64         float32/float64 (concrete only)
//	string          concrete string           | symstr (concrete length,
//	                per-octet uint64 or *sym.Term)
//	[]value         slices (real Go slices: aliasing, cap, append are exact)
//	*value          pointers
//	structure, array, iface, tuple, *closure, *ssa.Function, *ssa.Builtin,
//	*vmap, *vchan, iter  as in go/ssa/interp, whose structure this follows.
package exec

import (
	"fmt"
	"go/types"
	"strings"

	"golang.org/x/tools/go/ssa"

	"verif/gosym/sym"
)

type value = interface{}

type tuple []value
type array []value
type structure []value

type iface struct {
	t types.Type
	v value
}

type closure struct {
	Fn  *ssa.Function
	Env []value
}

// symstr is a string with concrete length whose octets may be symbolic.
// Immutable by convention.
type symstr []value

type bad struct{}

// opaque is a string-typed value whose content is not modelled (e.g. the
// result of %q on symbolic text). It may be stored and passed around, but
// inspecting it ends the path as inconclusive.
type opaque struct{ why string }

type iter interface {
	next(ex *Exec) tuple
}

// sliceData is the result of unsafe.SliceData / unsafe.StringData.
type sliceData struct {
	s   []value
	str value
}

// ---------------------------------------------------------------------------
// Type classification

type kind struct {
	w      uint8 // bit width for integers
	signed bool
	cls    uint8
}

const (
	clsInt uint8 = iota
	clsBool
	clsString
	clsFloat
	clsOther
)

func basicKind(t types.Type) kind {
	b, ok := t.Underlying().(*types.Basic)
	if !ok {
		if _, isPtr := t.Underlying().(*types.Pointer); isPtr {
			return kind{cls: clsOther}
		}
		return kind{cls: clsOther}
	}
	switch b.Kind() {
	case types.Bool, types.UntypedBool:
		return kind{cls: clsBool}
	case types.Int, types.Int64, types.UntypedInt:
		return kind{64, true, clsInt}
	case types.Int8:
		return kind{8, true, clsInt}
	case types.Int16:
		return kind{16, true, clsInt}
	case types.Int32, types.UntypedRune:
		return kind{32, true, clsInt}
	case types.Uint, types.Uint64, types.Uintptr:
		return kind{64, false, clsInt}
	case types.Uint8:
		return kind{8, false, clsInt}
	case types.Uint16:
		return kind{16, false, clsInt}
	case types.Uint32:
		return kind{32, false, clsInt}
	case types.Float32, types.Float64, types.UntypedFloat:
		return kind{cls: clsFloat, w: map[bool]uint8{true: 32, false: 64}[b.Kind() == types.Float32]}
	case types.String, types.UntypedString:
		return kind{cls: clsString}
	case types.UnsafePointer:
		return kind{cls: clsOther}
	}
	return kind{cls: clsOther}
}

func maskW(w uint8) uint64 {
	if w >= 64 {
		return ^uint64(0)
	}
	return (uint64(1) << w) - 1
}

func sextW(v uint64, w uint8) int64 {
	if w >= 64 {
		return int64(v)
	}
	sh := 64 - uint(w)
	return int64(v<<sh) >> sh
}

// ---------------------------------------------------------------------------
// Zero values

func zero(t types.Type) value {
	switch t := t.(type) {
	case *types.Basic:
		if t.Kind() == types.UntypedNil {
			panic("untyped nil has no zero value")
		}
		switch basicKind(t).cls {
		case clsBool:
			return false
		case clsInt:
			return uint64(0)
		case clsFloat:
			return float64(0)
		case clsString:
			return ""
		}
		if t.Kind() == types.UnsafePointer {
			return (*value)(nil)
		}
		if t.Info()&types.IsComplex != 0 {
			return complex128(0)
		}
		panic(fmt.Sprint("zero for unexpected basic type: ", t))
	case *types.Pointer:
		return (*value)(nil)
	case *types.Array:
		a := make(array, t.Len())
		for i := range a {
			a[i] = zero(t.Elem())
		}
		return a
	case *types.Named:
		return zero(t.Underlying())
	case *types.Alias:
		return zero(types.Unalias(t))
	case *types.Interface:
		return iface{}
	case *types.Slice:
		return []value(nil)
	case *types.Struct:
		s := make(structure, t.NumFields())
		for i := range s {
			s[i] = zero(t.Field(i).Type())
		}
		return s
	case *types.Tuple:
		if t.Len() == 1 {
			return zero(t.At(0).Type())
		}
		s := make(tuple, t.Len())
		for i := range s {
			s[i] = zero(t.At(i).Type())
		}
		return s
	case *types.Chan:
		return (*vchan)(nil)
	case *types.Map:
		return (*vmap)(nil)
	case *types.Signature:
		return (*ssa.Function)(nil)
	}
	panic(fmt.Sprint("zero: unexpected ", t))
}

// load returns a copy of the value of type T in *addr (aggregates are copied).
func load(T types.Type, addr *value) value {
	switch T := T.Underlying().(type) {
	case *types.Struct:
		v := (*addr).(structure)
		a := make(structure, len(v))
		for i := range a {
			a[i] = load(T.Field(i).Type(), &v[i])
		}
		return a
	case *types.Array:
		v := (*addr).(array)
		a := make(array, len(v))
		for i := range a {
			a[i] = load(T.Elem(), &v[i])
		}
		return a
	default:
		return *addr
	}
}

// store stores v of type T into *addr, copying aggregates element-wise so
// that interior pointers into *addr stay valid.
func store(T types.Type, addr *value, v value) {
	switch T := T.Underlying().(type) {
	case *types.Struct:
		lhs := (*addr).(structure)
		rhs := v.(structure)
		for i := range lhs {
			store(T.Field(i).Type(), &lhs[i], rhs[i])
		}
	case *types.Array:
		lhs := (*addr).(array)
		rhs := v.(array)
		for i := range lhs {
			store(T.Elem(), &lhs[i], rhs[i])
		}
	default:
		*addr = v
	}
}

// copyVal deep-copies aggregates (struct/array); everything else is shared.
func copyVal(v value) value {
	switch v := v.(type) {
	case structure:
		a := make(structure, len(v))
		for i := range a {
			a[i] = copyVal(v[i])
		}
		return a
	case array:
		a := make(array, len(v))
		for i := range a {
			a[i] = copyVal(v[i])
		}
		return a
	}
	return v
}

// ---------------------------------------------------------------------------
// Strings

func isStr(v value) bool {
	switch v.(type) {
	case string, symstr:
		return true
	}
	return false
}

// strOctets returns the octets of a string value.
func (ex *Exec) strOctets(v value) []value {
	switch s := v.(type) {
	case string:
		out := make([]value, len(s))
		for i := 0; i < len(s); i++ {
			out[i] = uint64(s[i])
		}
		return out
	case symstr:
		return []value(s)
	case opaque:
		ex.inconclusive("opaque string inspected: " + s.why)
	}
	panic(fmt.Sprintf("strOctets: not a string: %T", v))
}

func (ex *Exec) strLen(v value) int {
	switch s := v.(type) {
	case string:
		return len(s)
	case symstr:
		return len(s)
	case opaque:
		ex.inconclusive("opaque string inspected: " + s.why)
	}
	panic(fmt.Sprintf("strLen: not a string: %T", v))
}

// mkStr builds a string value from octets, normalising to a Go string when
// every octet is concrete. The slice is copied.
func mkStr(b []value) value {
	conc := true
	for _, x := range b {
		if _, ok := x.(uint64); !ok {
			conc = false
			break
		}
	}
	if conc {
		var sb strings.Builder
		sb.Grow(len(b))
		for _, x := range b {
			sb.WriteByte(byte(x.(uint64)))
		}
		return sb.String()
	}
	out := make(symstr, len(b))
	copy(out, b)
	return out
}

func strSlice(v value, lo, hi int) value {
	switch s := v.(type) {
	case string:
		return s[lo:hi]
	case symstr:
		return mkStr([]value(s[lo:hi]))
	}
	panic("strSlice")
}

func strConcat(ex *Exec, a, b value) value {
	if as, ok := a.(string); ok {
		if bs, ok := b.(string); ok {
			return as + bs
		}
	}
	if _, ok := a.(opaque); ok {
		return a
	}
	if _, ok := b.(opaque); ok {
		return b
	}
	ao, bo := ex.strOctets(a), ex.strOctets(b)
	out := make([]value, 0, len(ao)+len(bo))
	out = append(out, ao...)
	out = append(out, bo...)
	return mkStr(out)
}

// ---------------------------------------------------------------------------
// Scalar helpers

func (ex *Exec) termOf(v value, w uint8) *sym.Term {
	switch v := v.(type) {
	case *sym.Term:
		return v
	case uint64:
		return ex.ctx.BV(v, w)
	case bool:
		return ex.ctx.Bool(v)
	}
	panic(fmt.Sprintf("termOf: %T", v))
}

// norm turns a constant term back into a concrete value.
func norm(t *sym.Term) value {
	if t.Op == sym.OpConst {
		if t.W == 0 {
			return t.Val != 0
		}
		return t.Val
	}
	return t
}

func isSym(v value) bool {
	_, ok := v.(*sym.Term)
	return ok
}

func sameType(x, y types.Type) bool {
	if x == nil {
		return y == nil
	}
	return y != nil && types.Identical(x, y)
}

// ---------------------------------------------------------------------------
// Equality. Returns bool or *sym.Term.

func (ex *Exec) eqv(t types.Type, x, y value) value {
	switch x := x.(type) {
	case bool:
		if yb, ok := y.(bool); ok {
			return x == yb
		}
		return norm(ex.ctx.Eq(ex.ctx.Bool(x), y.(*sym.Term)))
	case uint64:
		if yu, ok := y.(uint64); ok {
			return x == yu
		}
		yt := y.(*sym.Term)
		return norm(ex.ctx.Eq(ex.ctx.BV(x, yt.W), yt))
	case *sym.Term:
		return norm(ex.ctx.Eq(x, ex.termOf(y, x.W)))
	case float64:
		return x == y.(float64)
	case complex128:
		return x == y.(complex128)
	case string:
		if ys, ok := y.(string); ok {
			return x == ys
		}
		return ex.strEq(x, y)
	case symstr:
		return ex.strEq(x, y)
	case opaque:
		ex.inconclusive("opaque string compared: " + x.why)
	case *value:
		return x == y.(*value)
	case *vchan:
		return x == y.(*vchan)
	case structure:
		ys := y.(structure)
		tS := t.Underlying().(*types.Struct)
		var acc value = true
		for i := 0; i < tS.NumFields(); i++ {
			f := tS.Field(i)
			if f.Name() == "_" {
				continue
			}
			acc = ex.andv(acc, ex.eqv(f.Type(), x[i], ys[i]))
			if acc == false {
				return false
			}
		}
		return acc
	case array:
		ya := y.(array)
		tE := t.Underlying().(*types.Array).Elem()
		var acc value = true
		for i := range x {
			acc = ex.andv(acc, ex.eqv(tE, x[i], ya[i]))
			if acc == false {
				return false
			}
		}
		return acc
	case iface:
		yi := y.(iface)
		if !sameType(x.t, yi.t) {
			return false
		}
		if x.t == nil {
			return true
		}
		return ex.eqv(x.t, x.v, yi.v)
	case *vmap:
		ym, _ := y.(*vmap)
		return x == ym
	case *ssa.Function:
		if yf, ok := y.(*ssa.Function); ok {
			return x == yf
		}
		return false
	case *closure:
		yc, _ := y.(*closure)
		return x == yc
	case []value:
		// only reachable for comparisons against nil
		ys, _ := y.([]value)
		return x == nil && ys == nil
	case sliceData:
		return false
	}
	panic(fmt.Sprintf("eqv: comparing uncomparable type %s (%T)", t, x))
}

func (ex *Exec) strEq(a, b value) value {
	if _, ok := b.(opaque); ok {
		ex.inconclusive("opaque string compared")
	}
	if ex.strLen(a) != ex.strLen(b) {
		return false
	}
	ao, bo := ex.strOctets(a), ex.strOctets(b)
	var acc value = true
	for i := range ao {
		acc = ex.andv(acc, ex.eqv(nil, ao[i], bo[i]))
		if acc == false {
			return false
		}
	}
	return acc
}

func (ex *Exec) andv(a, b value) value {
	if ab, ok := a.(bool); ok {
		if !ab {
			return false
		}
		return b
	}
	if bb, ok := b.(bool); ok {
		if !bb {
			return false
		}
		return a
	}
	return norm(ex.ctx.And(a.(*sym.Term), b.(*sym.Term)))
}

func (ex *Exec) orv(a, b value) value {
	if ab, ok := a.(bool); ok {
		if ab {
			return true
		}
		return b
	}
	if bb, ok := b.(bool); ok {
		if bb {
			return true
		}
		return a
	}
	return norm(ex.ctx.Or(a.(*sym.Term), b.(*sym.Term)))
}

func (ex *Exec) notv(a value) value {
	if ab, ok := a.(bool); ok {
		return !ab
	}
	return norm(ex.ctx.Not(a.(*sym.Term)))
}

// ---------------------------------------------------------------------------
// Debug printing

func toString(v value) string {
	var sb strings.Builder
	writeValue(&sb, v, 0)
	return sb.String()
}

func writeValue(sb *strings.Builder, v value, depth int) {
	if depth > 4 {
		sb.WriteString("...")
		return
	}
	switch v := v.(type) {
	case nil:
		sb.WriteString("<nil>")
	case bool, uint64, float64, string:
		fmt.Fprintf(sb, "%v", v)
	case *sym.Term:
		s := sym.SMT(v)
		if len(s) > 80 {
			s = s[:80] + "…"
		}
		sb.WriteString(s)
	case symstr:
		sb.WriteString("sym\"")
		for _, o := range v {
			if u, ok := o.(uint64); ok {
				if u >= 0x20 && u < 0x7f {
					sb.WriteByte(byte(u))
				} else {
					fmt.Fprintf(sb, "\\x%02x", u)
				}
			} else {
				sb.WriteString("?")
			}
		}
		sb.WriteString("\"")
	case opaque:
		sb.WriteString("<opaque " + v.why + ">")
	case *value:
		if v == nil {
			sb.WriteString("<nil>")
		} else {
			fmt.Fprintf(sb, "%p", v)
		}
	case iface:
		if v.t == nil {
			sb.WriteString("<nil iface>")
			return
		}
		fmt.Fprintf(sb, "(%s, ", v.t)
		writeValue(sb, v.v, depth+1)
		sb.WriteString(")")
	case structure:
		sb.WriteString("{")
		for i, e := range v {
			if i > 0 {
				sb.WriteString(" ")
			}
			writeValue(sb, e, depth+1)
		}
		sb.WriteString("}")
	case array:
		sb.WriteString("[")
		for i, e := range v {
			if i > 16 {
				sb.WriteString(" …")
				break
			}
			if i > 0 {
				sb.WriteString(" ")
			}
			writeValue(sb, e, depth+1)
		}
		sb.WriteString("]")
	case []value:
		sb.WriteString("[")
		for i, e := range v {
			if i > 16 {
				sb.WriteString(" …")
				break
			}
			if i > 0 {
				sb.WriteString(" ")
			}
			writeValue(sb, e, depth+1)
		}
		sb.WriteString("]")
	case tuple:
		sb.WriteString("(")
		for i, e := range v {
			if i > 0 {
				sb.WriteString(", ")
			}
			writeValue(sb, e, depth+1)
		}
		sb.WriteString(")")
	case *ssa.Function:
		if v == nil {
			sb.WriteString("<nil func>")
		} else {
			sb.WriteString(v.String())
		}
	case *closure:
		sb.WriteString("closure:" + v.Fn.String())
	default:
		fmt.Fprintf(sb, "<%T>", v)
	}
}
