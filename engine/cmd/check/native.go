package main

import (
	"bytes"
	"encoding/json"
	"fmt"
	"os"
	"os/exec"
	"path/filepath"
	"strings"
	"time"
)

type replayCase struct {
	Property string   `json:"property"`
	Harness  string   `json:"harness"`
	Label    string   `json:"label"`
	Detail   string   `json:"detail,omitempty"`
	Inputs   []uint64 `json:"inputs"`
	Kinds    []string `json:"kinds,omitempty"`
	Sched    []uint64 `json:"sched,omitempty"`
	Spawned  bool     `json:"spawned,omitempty"`
	Tier     int      `json:"tier"`
	Random   bool     `json:"random,omitempty"`
	Seed     int64    `json:"seed,omitempty"`
	kind     string
}

type nativeOut struct {
	Harness  string   `json:"harness"`
	Outcome  string   `json:"outcome"`
	Label    string   `json:"label"`
	Drawn    []uint64 `json:"drawn"`
	Observes []string `json:"observes"`
	Reached  []string `json:"reached"`
	PanicMsg string   `json:"panic"`
}

type native struct{ c *checker }

func newNative(c *checker) *native { return &native{c} }

const nativeTestTmpl = `package smtp

import (
	"bytes"
	"encoding/json"
	"fmt"
	"math/rand"
	"os"
	"os/exec"
	"strconv"
	"sync"
	"testing"
	"time"
)

var verifHarnessTable = map[string]func(){
%s}

type verifCase struct {
	Harness string   ` + "`json:\"harness\"`" + `
	Inputs  []uint64 ` + "`json:\"inputs\"`" + `
	Random  bool     ` + "`json:\"random\"`" + `
	Seed    int64    ` + "`json:\"seed\"`" + `
	Tier    int      ` + "`json:\"tier\"`" + `
}

type verifOut struct {
	Harness  string   ` + "`json:\"harness\"`" + `
	Outcome  string   ` + "`json:\"outcome\"`" + `
	Label    string   ` + "`json:\"label\"`" + `
	Drawn    []uint64 ` + "`json:\"drawn\"`" + `
	Observes []string ` + "`json:\"observes\"`" + `
	Reached  []string ` + "`json:\"reached\"`" + `
	PanicMsg string   ` + "`json:\"panic\"`" + `
}

func verifRunCase(c verifCase) (o verifOut) {
	o.Harness = c.Harness
	ns := &verifNativeState{vals: c.Inputs, reached: map[string]bool{}, tier: c.Tier}
	if c.Random {
		ns.rnd = rand.New(rand.NewSource(c.Seed))
	}
	verifNS = ns
	done := make(chan struct{})
	go func() {
		defer close(done)
		defer func() {
			if p := recover(); p != nil {
				switch p := p.(type) {
				case verifAssumeFailed:
					o.Outcome = "assume"
				case verifAssertFailed:
					o.Outcome = "violated"
					o.Label = p.label
				default:
					o.Outcome = "panic"
					o.PanicMsg = fmt.Sprint(p)
				}
			}
		}()
		fn := verifHarnessTable[c.Harness]
		if fn == nil {
			panic("no such harness " + c.Harness)
		}
		fn()
		o.Outcome = "ok"
	}()
	select {
	case <-done:
	case <-time.After(20 * time.Second):
		o.Outcome = "timeout"
	}
	o.Drawn = ns.drawn
	o.Observes = ns.observes
	for l := range ns.reached {
		o.Reached = append(o.Reached, l)
	}
	return
}

// Every case runs in a process of its own (the test binary re-executes
// itself): package-level state of the code under test - pools, caches,
// counters - must not leak from one case into the next, exactly as every path
// of the symbolic execution starts from the initial state. A case whose
// process dies (a panic in a goroutine nobody recovers, a fatal runtime error)
// is reported as outcome "panic".
func TestVerifNative(t *testing.T) {
	data, err := os.ReadFile(os.Getenv("VERIF_CASES"))
	if err != nil {
		t.Fatal(err)
	}
	var cases []verifCase
	if err := json.Unmarshal(data, &cases); err != nil {
		t.Fatal(err)
	}
	if idx := os.Getenv("VERIF_CASE_INDEX"); idx != "" {
		i, _ := strconv.Atoi(idx)
		b, _ := json.Marshal(verifRunCase(cases[i]))
		if err := os.WriteFile(os.Getenv("VERIF_CASE_OUT"), b, 0o644); err != nil {
			t.Fatal(err)
		}
		return
	}
	outs := make([]verifOut, len(cases))
	sem := make(chan struct{}, 8)
	var wg sync.WaitGroup
	var mu sync.Mutex
	for i := range cases {
		wg.Add(1)
		sem <- struct{}{}
		go func(i int) {
			defer wg.Done()
			defer func() { <-sem }()
			tmp := os.Getenv("VERIF_OUT") + "." + strconv.Itoa(i)
			cmd := exec.Command(os.Args[0], "-test.run", "^TestVerifNative$", "-test.timeout", "60s")
			cmd.Env = append(os.Environ(), "VERIF_CASE_INDEX="+strconv.Itoa(i), "VERIF_CASE_OUT="+tmp)
			if os.Getenv("VERIF_ONE_P") == "1" {
				// one P: what sync.Pool hands out again is deterministic
				cmd.Env = append(cmd.Env, "GOMAXPROCS=1")
			}
			var buf bytes.Buffer
			cmd.Stdout, cmd.Stderr = &buf, &buf
			runErr := cmd.Run()
			var o verifOut
			b, err := os.ReadFile(tmp)
			if err != nil || json.Unmarshal(b, &o) != nil {
				msg := buf.String()
				if len(msg) > 600 {
					msg = msg[:600]
				}
				o = verifOut{Harness: cases[i].Harness, Outcome: "panic", PanicMsg: fmt.Sprintf("process died (%%v): %%s", runErr, msg)}
			}
			os.Remove(tmp)
			mu.Lock()
			// race detector reports and the like go to the parent's output
			os.Stderr.Write(buf.Bytes())
			outs[i] = o
			mu.Unlock()
		}(i)
	}
	wg.Wait()
	b, _ := json.Marshal(outs)
	if err := os.WriteFile(os.Getenv("VERIF_OUT"), b, 0o644); err != nil {
		t.Fatal(err)
	}
}
`

// runCases compiles the harness files natively against the real code (go test
// -overlay; nothing is written into the repository) and runs the given cases.
func (n *native) runCases(cases []replayCase) ([]nativeOut, error) {
	outs, _, err := n.runCasesFull(cases, false)
	return outs, err
}

func (n *native) runCasesOpt(cases []replayCase, race bool) (string, error) {
	_, txt, err := n.runCasesFull(cases, race)
	return txt, err
}

func (n *native) runCasesFull(cases []replayCase, race bool) ([]nativeOut, string, error) {
	c := n.c
	work, err := os.MkdirTemp(filepath.Join(c.verif, ".work"), "native-")
	if err != nil {
		os.MkdirAll(filepath.Join(c.verif, ".work"), 0o755)
		work, err = os.MkdirTemp(filepath.Join(c.verif, ".work"), "native-")
		if err != nil {
			return nil, "", err
		}
	}
	defer os.RemoveAll(work)
	files, err := c.harnessFiles()
	if err != nil {
		return nil, "", err
	}
	// harness table
	names, err := harnessNames(files)
	if err != nil {
		return nil, "", err
	}
	var tab strings.Builder
	for _, nm := range names {
		fmt.Fprintf(&tab, "\t%q: %s,\n", nm, nm)
	}
	testFile := filepath.Join(work, "zz_verif_native_test.go")
	if err := os.WriteFile(testFile, []byte(fmt.Sprintf(nativeTestTmpl, tab.String())), 0o644); err != nil {
		return nil, "", err
	}
	replace := map[string]string{filepath.Join(c.repo, "zz_verif_native_test.go"): testFile}
	for _, f := range files {
		replace[filepath.Join(c.repo, filepath.Base(f))] = f
	}
	ov, _ := json.Marshal(map[string]interface{}{"Replace": replace})
	ovFile := filepath.Join(work, "overlay.json")
	os.WriteFile(ovFile, ov, 0o644)
	type nc struct {
		Harness string   `json:"harness"`
		Inputs  []uint64 `json:"inputs"`
		Random  bool     `json:"random"`
		Seed    int64    `json:"seed"`
		Tier    int      `json:"tier"`
	}
	var ncs []nc
	for _, rc := range cases {
		ncs = append(ncs, nc{rc.Harness, rc.Inputs, rc.Random, rc.Seed, rc.Tier})
	}
	cb, _ := json.Marshal(ncs)
	casesFile := filepath.Join(work, "cases.json")
	outFile := filepath.Join(work, "out.json")
	os.WriteFile(casesFile, cb, 0o644)
	timeout := 120 + len(cases)/2
	args := []string{"test", "-vet=off", "-count=1", "-run", "^TestVerifNative$", "-overlay", ovFile,
		"-timeout", fmt.Sprintf("%ds", timeout)}
	if race {
		args = append(args, "-race")
	}
	args = append(args, ".")
	cmd := exec.Command("go", args...)
	cmd.Dir = c.repo
	cgo := "CGO_ENABLED=0"
	if race {
		cgo = "CGO_ENABLED=1"
	}
	cmd.Env = append(os.Environ(), "GOFLAGS=-mod=mod", "GOPROXY=off", "GOSUMDB=off", "GOTOOLCHAIN=local", cgo,
		"VERIF_CASES="+casesFile, "VERIF_OUT="+outFile)
	if !race {
		cmd.Env = append(cmd.Env, "VERIF_ONE_P=1")
	}
	var buf bytes.Buffer
	cmd.Stdout, cmd.Stderr = &buf, &buf
	t0 := time.Now()
	runErr := cmd.Run()
	_ = t0
	ob, err := os.ReadFile(outFile)
	if err != nil {
		tail := buf.String()
		if len(tail) > 3000 {
			tail = tail[len(tail)-3000:]
		}
		return nil, buf.String(), fmt.Errorf("native run produced no output (%v): %s", runErr, tail)
	}
	var outs []nativeOut
	if err := json.Unmarshal(ob, &outs); err != nil {
		return nil, "", err
	}
	if len(outs) != len(cases) {
		return nil, buf.String(), fmt.Errorf("native run returned %d results for %d cases", len(outs), len(cases))
	}
	return outs, buf.String(), nil
}

func harnessNames(files []string) ([]string, error) {
	var names []string
	for _, f := range files {
		b, err := os.ReadFile(f)
		if err != nil {
			return nil, err
		}
		for _, line := range strings.Split(string(b), "\n") {
			if strings.HasPrefix(line, "func verif_") {
				nm := strings.TrimPrefix(line, "func ")
				if i := strings.Index(nm, "("); i > 0 && strings.HasPrefix(nm[i:], "()") {
					names = append(names, nm[:i])
				}
			}
		}
	}
	return names, nil
}

// runRace compiles the harness files natively with the Go race detector and
// runs the given harness n times; returns the set of racing access pairs the
// detector reported, normalised like the engine's happens-before reports
// ("read@(*Conn).handleBdat vs write@(*Conn).Close").
func (n *native) runRace(harness string, runs int, tier int) (map[string]bool, error) {
	var cases []replayCase
	for i := 0; i < runs; i++ {
		cases = append(cases, replayCase{Harness: harness, Random: true, Seed: int64(i + 1), Tier: tier})
	}
	out, err := n.runCasesOpt(cases, true)
	if err != nil && out == "" {
		return nil, err
	}
	return parseRaces(out), nil
}

func parseRaces(out string) map[string]bool {
	res := map[string]bool{}
	blocks := strings.Split(out, "WARNING: DATA RACE")
	for _, b := range blocks[1:] {
		if i := strings.Index(b, "=================="); i >= 0 {
			b = b[:i]
		}
		lines := strings.Split(b, "\n")
		var accs []string
		for i := 0; i < len(lines); i++ {
			l := strings.TrimSpace(lines[i])
			kind := ""
			switch {
			case strings.HasPrefix(l, "Write at"), strings.HasPrefix(l, "Previous write at"):
				kind = "write"
			case strings.HasPrefix(l, "Read at"), strings.HasPrefix(l, "Previous read at"):
				kind = "read"
			}
			if kind == "" {
				continue
			}
			// first frame of the package under test outside harness files
			fn := ""
			for j := i + 1; j+1 < len(lines); j += 2 {
				f := strings.TrimSpace(lines[j])
				file := strings.TrimSpace(lines[j+1])
				if f == "" {
					break
				}
				if strings.HasPrefix(f, "github.com/emersion/go-smtp.") && !strings.Contains(file, "zz_verif") {
					fn = strings.TrimPrefix(f, "github.com/emersion/go-smtp.")
					if k := strings.Index(fn, "()"); k >= 0 {
						fn = fn[:k]
					}
					if k := strings.Index(fn, ".func"); k >= 0 {
						fn = fn[:k] + "$goroutine"
					}
					if k := strings.Index(fn, ".gowrap"); k >= 0 {
						fn = fn[:k] + "$goroutine"
					}
					break
				}
			}
			if fn != "" {
				accs = append(accs, kind+"@"+fn)
			}
		}
		if len(accs) >= 2 {
			x, y := accs[0], accs[1]
			if x > y {
				x, y = y, x
			}
			res[x+" vs "+y] = true
		}
	}
	return res
}
