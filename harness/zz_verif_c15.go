package smtp

import (
	"bytes"
	"io"
	"strings"
)

// verifClient builds a Client over an in-memory connection that already holds
// the server's replies; greeting and EHLO are skipped by setting the state the
// way hello() leaves it, with the given capability map.
func verifClient(replies string, ext map[string]string) (*Client, *vconn) {
	vc := &vconn{in: []byte(replies), final: io.EOF}
	c := NewClient(vc)
	c.didGreet = true
	c.didHello = true
	c.ext = ext
	return c, vc
}

// verifExtMap: one extension under test is present or absent (symbolic), all
// the others are jointly present or jointly absent. This keeps the number of
// capability maps linear instead of 2^k while still separating every
// parameter from every other extension's advertisement.
func verifExtMap(names []string) (map[string]string, map[string]bool) {
	ext := map[string]string{}
	has := map[string]bool{}
	under := verifChoice(len(names))
	underOn := nondetBool()
	othersOn := nondetBool()
	for i, n := range names {
		on := othersOn
		if i == under {
			on = underOn
		}
		if on {
			ext[n] = ""
			has[n] = true
		}
	}
	return ext, has
}

// verifAffix: a valid token with up to two arbitrary octets glued to its start
// or its end (where trimming or case folding in a validity check would hide them).
func verifAffix(tok string) string {
	x := nondetString(2)
	if nondetBool() {
		return x + tok
	}
	return tok + x
}

// verifOneLineOrNothing: the octets written by one call are either none or
// exactly one CRLF-terminated line without any other CR or LF.
func verifOneLineOrNothing(out []byte, err error, prop string) bool {
	if len(out) == 0 {
		verifAssert(err != nil, prop+".nothing-written-means-local-error")
		return false
	}
	n := len(out)
	ok := n >= 2 && out[n-2] == '\r' && out[n-1] == '\n'
	for _, ch := range out[:n-2] {
		if ch == '\r' || ch == '\n' {
			ok = false
		}
	}
	verifAssert(ok, prop+".exactly-one-line")
	return ok
}

func verif_C15_mail() {
	L := verifBound(2, 3)
	ext, has := verifExtMap([]string{"8BITMIME", "SIZE", "REQUIRETLS", "SMTPUTF8", "DSN", "AUTH"})
	// exactly one argument is hostile (arbitrary octets) per run; the others
	// are benign. Arguments are processed independently by the client.
	hostile := verifChoice(5)
	from := "a@b"
	if hostile == 0 {
		from = nondetString(L)
	}
	var opts *MailOptions
	if nondetBool() {
		opts = &MailOptions{Size: 5}
		opts.RequireTLS = nondetBool()
		opts.UTF8 = nondetBool()
		opts.Return = DSNReturnFull
		opts.EnvelopeID = "id1"
		a := "x@y"
		opts.Auth = &a
		switch hostile {
		case 1:
			opts.Return = DSNReturn(nondetString(L))
		case 2:
			opts.EnvelopeID = nondetString(L)
		case 3:
			if nondetBool() {
				opts.Auth = nil
			} else {
				a = nondetString(L)
			}
		case 4:
			opts.Return = DSNReturn(verifAffix([]string{"FULL", "HDRS"}[verifChoice(2)]))
		}
	}
	c, vc := verifClient("250 2.0.0 ok\r\n", ext)
	err := c.Mail(from, opts)
	verifObserve("c15mail", from, vc.out, err == nil)
	if !verifOneLineOrNothing(vc.out, err, "C15") {
		if len(vc.out) == 0 {
			verifReach("C15.mail-local-error")
		}
		return
	}
	verifReach("C15.mail-line")
	line := vc.out
	verifAssert(!bytes.Contains(line, []byte(" BODY=")) || has["8BITMIME"], "C15.body-only-if-advertised")
	verifAssert(!bytes.Contains(line, []byte(" SIZE=")) || has["SIZE"], "C15.size-only-if-advertised")
	verifAssert(!bytes.Contains(line, []byte(" REQUIRETLS")) || has["REQUIRETLS"], "C15.requiretls-only-if-advertised")
	verifAssert(!bytes.Contains(line, []byte(" SMTPUTF8")) || has["SMTPUTF8"], "C15.smtputf8-only-if-advertised")
	verifAssert(!bytes.Contains(line, []byte(" RET=")) || has["DSN"], "C15.ret-only-if-advertised")
	verifAssert(!bytes.Contains(line, []byte(" ENVID=")) || has["DSN"], "C15.envid-only-if-advertised")
	verifAssert(!bytes.Contains(line, []byte(" AUTH=")) || has["AUTH"], "C15.auth-only-if-advertised")
	if opts != nil && opts.RequireTLS {
		verifAssert(has["REQUIRETLS"] && bytes.Contains(line, []byte(" REQUIRETLS")), "C15.requiretls-never-dropped")
	}
	if opts != nil && opts.UTF8 {
		verifAssert(has["SMTPUTF8"] && bytes.Contains(line, []byte(" SMTPUTF8")), "C15.smtputf8-never-dropped")
	}
}

func verif_C15_rcpt() {
	L := verifBound(2, 3)
	ext, has := verifExtMap([]string{"DSN", "SMTPUTF8", "RRVS"})
	hostile := verifChoice(6)
	to := "a@b"
	if hostile == 0 {
		to = nondetString(L)
	}
	var opts *RcptOptions
	if nondetBool() {
		opts = &RcptOptions{}
		opts.Notify = []DSNNotify{DSNNotifyFailure, DSNNotifyDelayed}
		opts.OriginalRecipient = "o@p"
		opts.OriginalRecipientType = DSNAddressTypeRFC822
		switch hostile {
		case 1:
			opts.Notify = []DSNNotify{DSNNotifyFailure, DSNNotify(nondetString(L))}
		case 2:
			opts.OriginalRecipient = nondetString(L)
			if nondetBool() {
				opts.OriginalRecipientType = DSNAddressTypeUTF8
			}
		case 3:
			opts.OriginalRecipientType = DSNAddressType(nondetString(L))
		case 4:
			// a VALID token with one arbitrary octet glued to its start or end
			opts.OriginalRecipientType = DSNAddressType(verifAffix([]string{"rfc822", "utf-8", "RFC822"}[verifChoice(3)]))
		case 5:
			opts.Notify = []DSNNotify{DSNNotify(verifAffix("NEVER"))}
		}
	}
	c, vc := verifClient("250 2.0.0 ok\r\n", ext)
	err := c.Rcpt(to, opts)
	verifObserve("c15rcpt", to, vc.out, err == nil)
	if !verifOneLineOrNothing(vc.out, err, "C15") {
		if len(vc.out) == 0 {
			verifReach("C15.rcpt-local-error")
		}
		return
	}
	verifReach("C15.rcpt-line")
	line := vc.out
	verifAssert(!bytes.Contains(line, []byte(" NOTIFY=")) || has["DSN"], "C15.notify-only-if-advertised")
	verifAssert(!bytes.Contains(line, []byte(" ORCPT=")) || has["DSN"], "C15.orcpt-only-if-advertised")
	verifAssert(!bytes.Contains(line, []byte(" RRVS=")) || has["RRVS"], "C15.rrvs-only-if-advertised")
}

func verif_C15_hello_verify() {
	L := verifBound(3, 4)
	arg := nondetString(L)
	c, vc := verifClient("250 2.0.0 ok\r\n", nil)
	var err error
	if nondetBool() {
		c.didHello = false
		vc.in = []byte("250 ok\r\n")
		err = c.Hello(arg)
		verifReach("C15.hello")
	} else {
		err = c.Verify(arg)
		verifReach("C15.verify")
	}
	verifObserve("c15hv", arg, vc.out, err == nil)
	verifOneLineOrNothing(vc.out, err, "C15")
	if err != nil && len(vc.out) == 0 {
		// a refused argument must leave no trace: the next call writes its own
		// greeting and command, one line each, none of them carrying the value
		verifReach("C15.refused-then-next-call")
		vc.in = append(vc.in, "250 ok\r\n250 ok\r\n250 ok\r\n"...)
		nerr := c.Noop()
		lines := verifSplitLines(vc.out)
		verifAssert(nerr == nil, "C15.call-after-refused-argument-works")
		for _, l := range lines {
			ok := l == "NOOP" || l == "EHLO localhost" || l == "HELO localhost"
			verifAssert(ok, "C15.refused-argument-leaves-no-trace")
		}
	}
}

// verif_C15_rehello: "only parameters of extensions in the MOST RECENT EHLO
// reply". A real greeting and EHLO exchange advertises every extension; after
// Reset (which makes the client greet again) the second EHLO reply advertises
// an arbitrary subset, possibly nothing at all (a single 250 line). Mail and
// Rcpt with all options set must then use the second reply only.
func verif_C15_rehello() {
	names := []string{"8BITMIME", "SIZE", "REQUIRETLS", "SMTPUTF8", "DSN"}
	first := "220 srv ready\r\n250-srv\r\n250-8BITMIME\r\n250-SIZE 1000\r\n250-REQUIRETLS\r\n250-SMTPUTF8\r\n250 DSN\r\n"
	has := map[string]bool{}
	var adv []string
	fallback := false
	for _, n := range names {
		if nondetBool() {
			has[n] = true
			adv = append(adv, n)
		}
	}
	second := ""
	if len(adv) == 0 && nondetBool() {
		// the second EHLO is refused (500 / 502) and the HELO the client falls
		// back to is accepted: the most recent greeting offers nothing
		second = []string{"500 5.5.1 what\r\n", "502 5.5.1 no\r\n"}[verifChoice(2)] + "250 srv\r\n"
		fallback = true
	} else if len(adv) == 0 {
		second = "250 srv\r\n"
	} else {
		second = "250-srv\r\n"
		for i, n := range adv {
			sep := "-"
			if i == len(adv)-1 {
				sep = " "
			}
			second += "250" + sep + n + "\r\n"
		}
	}
	vc := &vconn{in: []byte(first + "250 2.0.0 reset\r\n" + second + "250 2.0.0 ok\r\n250 2.0.0 ok\r\n"), final: io.EOF}
	c := NewClient(vc)
	verifAssert(c.Hello("me.example") == nil, "C15.rehello-first-hello")
	verifAssert(c.Reset() == nil, "C15.rehello-reset")
	opts := &MailOptions{Size: 5, Return: DSNReturnFull, EnvelopeID: "id1", Body: Body8BitMIME}
	opts.RequireTLS = nondetBool()
	opts.UTF8 = nondetBool()
	mark := len(vc.out)
	err := c.Mail("a@b", opts)
	out := vc.out[mark:]
	// the client greets again first (its own line), then MAIL
	lines := verifSplitLines(out)
	verifObserve("c15re", len(adv), opts.RequireTLS, opts.UTF8, len(lines), err == nil)
	needMissing := opts.RequireTLS && !has["REQUIRETLS"] || opts.UTF8 && !has["SMTPUTF8"]
	if needMissing {
		verifReach("C15.rehello-refused-locally")
		verifAssert(err != nil, "C15.rehello-required-extension-missing-is-an-error")
		for _, l := range lines {
			verifAssert(!strings.HasPrefix(l, "MAIL "), "C15.rehello-nothing-sent-when-refused-locally")
		}
		return
	}
	verifReach("C15.rehello-mail-line")
	nl := 2
	if fallback {
		nl = 3 // EHLO, HELO, MAIL
	}
	verifAssert(err == nil && len(lines) == nl && strings.HasPrefix(lines[0], "EHLO ") && strings.HasPrefix(lines[nl-1], "MAIL FROM:<a@b>"), "C15.rehello-greets-then-mail")
	if len(lines) != nl {
		return
	}
	line := lines[nl-1]
	verifAssert(strings.Contains(line, " BODY=") == has["8BITMIME"], "C15.rehello-body-iff-advertised-now")
	verifAssert(strings.Contains(line, " SIZE=") == has["SIZE"], "C15.rehello-size-iff-advertised-now")
	verifAssert(strings.Contains(line, " REQUIRETLS") == (has["REQUIRETLS"] && opts.RequireTLS), "C15.rehello-requiretls-iff-advertised-now")
	verifAssert(strings.Contains(line, " SMTPUTF8") == (has["SMTPUTF8"] && opts.UTF8), "C15.rehello-smtputf8-iff-advertised-now")
	verifAssert(strings.Contains(line, " RET=") == has["DSN"] && strings.Contains(line, " ENVID=") == has["DSN"], "C15.rehello-dsn-iff-advertised-now")
	// RCPT
	mark = len(vc.out)
	ro := &RcptOptions{Notify: []DSNNotify{DSNNotifyFailure}, OriginalRecipient: "o@p", OriginalRecipientType: DSNAddressTypeRFC822}
	verifAssert(c.Rcpt("r@b", ro) == nil, "C15.rehello-rcpt")
	rl := string(vc.out[mark:])
	verifAssert(strings.Contains(rl, " NOTIFY=") == has["DSN"] && strings.Contains(rl, " ORCPT=") == has["DSN"], "C15.rehello-rcpt-dsn-iff-advertised-now")
}

// vmechClient: a SASL client mechanism whose NAME is chosen by the harness.
type vmechClient struct {
	name string
	ir   []byte
}

func (m *vmechClient) Start() (string, []byte, error) { return m.name, m.ir, nil }
func (m *vmechClient) Next(challenge []byte) ([]byte, error) {
	return []byte("r"), nil
}

// verif_C15_auth_name: Auth with a mechanism whose name holds arbitrary octets
// (a '%', CR, LF, anything). The AUTH step writes exactly one line that
// carries the name and the initial response as given - or nothing, with a
// local error; no octet of the name can start a second line or be rewritten
// on the way out.
func verif_C15_auth_name() {
	L := verifBound(2, 3)
	mid := nondetString(L)
	name := "X" + mid + "Y"
	withIR := nondetBool()
	m := &vmechClient{name: name}
	if withIR {
		m.ir = []byte("ab")
	}
	c, vc := verifClient("235 2.7.0 ok\r\n", map[string]string{"AUTH": name})
	err := c.Auth(m)
	verifObserve("c15auth", name, vc.out, err == nil)
	if !verifOneLineOrNothing(vc.out, err, "C15") {
		verifReach("C15.auth-name-local-error")
		return
	}
	verifReach("C15.auth-name-line")
	want := "AUTH " + name
	if withIR {
		want += " YWI="
	}
	// (the client trims white space around the assembled line)
	verifAssert(string(vc.out) == strings.TrimSpace(want)+"\r\n", "C15.auth-line-carries-the-name-as-given")
}

// verif_C15_after_refusal: a Mail or Rcpt call that is refused LOCALLY (an
// option the server did not offer, a malformed option value) writes nothing -
// and leaves nothing behind: the next Mail or Rcpt, on the same client or on
// another one in the same process, writes exactly its own line.
func verif_C15_after_refusal() {
	ext := map[string]string{"8BITMIME": "", "SIZE": "1000", "DSN": "", "AUTH": "PLAIN"}
	mk := func() (*Client, *vconn) {
		e := map[string]string{}
		for k, v := range ext {
			e[k] = v
		}
		return verifClient("250 2.0.0 ok\r\n250 2.0.0 ok\r\n", e)
	}
	c1, vc1 := mk()
	bad := "b\xc3\xa9d"
	var err error
	switch verifChoice(8) {
	case 0:
		err = c1.Mail("secret@v", &MailOptions{Size: 7, RequireTLS: true})
	case 1:
		err = c1.Mail("secret@v", &MailOptions{Size: 7, UTF8: true})
	case 2:
		err = c1.Mail("secret@v", &MailOptions{Return: DSNReturn("BOTH")})
	case 3:
		err = c1.Mail("secret@v", &MailOptions{Return: DSNReturnFull, EnvelopeID: bad})
	case 4:
		err = c1.Mail("secret@v", &MailOptions{Auth: &bad})
	case 5:
		err = c1.Rcpt("secret@v", &RcptOptions{Notify: []DSNNotify{DSNNotifyNever, DSNNotifySuccess}})
	case 6:
		err = c1.Rcpt("secret@v", &RcptOptions{Notify: []DSNNotify{DSNNotifyFailure}, OriginalRecipient: "x@y", OriginalRecipientType: DSNAddressType("x400")})
	case 7:
		err = c1.Rcpt("secret@v", &RcptOptions{OriginalRecipient: bad, OriginalRecipientType: DSNAddressTypeRFC822})
	}
	verifAssert(err != nil && len(vc1.out) == 0, "C15.after-refusal-first-call-refused-locally")
	c2, vc2 := c1, vc1
	if nondetBool() {
		c2, vc2 = mk()
	}
	var want string
	if nondetBool() {
		err = c2.Mail("b@v", &MailOptions{Size: 5})
		want = "MAIL FROM:<b@v> BODY=8BITMIME SIZE=5\r\n"
	} else {
		err = c2.Rcpt("c@v", nil)
		want = "RCPT TO:<c@v>\r\n"
	}
	verifObserve("c15after", vc2.out, err == nil)
	verifAssert(err == nil, "C15.after-refusal-next-call-works")
	verifAssert(string(vc2.out) == want, "C15.after-refusal-next-call-writes-exactly-its-own-line")
	verifReach("C15.after-refusal-end")
}
