package smtp

import (
	"errors"
	"io"
	"net"
	"time"

	"github.com/emersion/go-sasl"
)

// ---------------------------------------------------------------------------
// Environment for RUN/STEP harnesses: an in-memory net.Conn, a recording
// backend whose every decision is a harness input, a recording logger.

type verifTimeoutErr struct{}

func (verifTimeoutErr) Error() string   { return "i/o timeout" }
func (verifTimeoutErr) Timeout() bool   { return true }
func (verifTimeoutErr) Temporary() bool { return true }

type verifAddr struct{}

func (verifAddr) Network() string { return "verif" }
func (verifAddr) String() string  { return "verif:0" }

// vconn delivers a fixed input octet vector, cut into segments, then a final
// error; collects everything written.
type vconn struct {
	in     []byte
	pos    int
	cuts   []int // absolute offsets at which a Read stops short (segment boundaries)
	seg    int   // if >0: at most seg octets per Read
	final  error // returned once the input is exhausted (io.EOF, timeout, net.ErrClosed ...)
	out    []byte
	closed bool
	closes int
	reads  int
	// hold, if non-nil: when the input is exhausted Read blocks until the
	// channel is closed (by Close or by the harness = the peer going away)
	hold     chan struct{}
	holdDone bool
	// wblock, if non-nil: the peer does not read, every Write blocks until the
	// connection is closed (then fails)
	wblock chan struct{}
	// faults: before the octet at this offset is delivered, Read fails once
	// with the given error (a read deadline that expires while the peer is
	// slow); the octets after it still arrive
	faults  map[int]error
	fired   map[int]bool
	expired bool // a deadline has expired: every Read fails until SetReadDeadline moves it
	// finalWithData: the Read that delivers the last octets returns the final
	// error together with them (n > 0 and err != nil, which io.Reader allows
	// and TLS connections do when the close_notify follows the data)
	finalWithData bool
	// onRead, if set, is called at the start of every Read that delivers octets,
	// with the input position
	onRead func(pos int)
	// script, if set, is called when the input is exhausted (a lock-step
	// client): it may append to in and return true to continue.
	script func(c *vconn) bool
	// TLS stub support (see engine tls intrinsics): octets available inside TLS
	tlsIn        []byte
	tlsPos       int
	tlsOut       []byte
	tlsFail      bool
	tlsHandshake int
	tlsFinal     error
	// deadline bookkeeping: is a deadline armed for a direction, and how many
	// reads / writes of the plaintext and of the TLS phase ran under one
	rdArmed, wrArmed        bool
	plainRd, plainRdArmed   int
	plainWr, plainWrArmed   int
	insideRd, insideRdArmed int
	insideWr, insideWrArmed int
}

func (c *vconn) Read(b []byte) (int, error) {
	c.reads++
	c.plainRd++
	if c.rdArmed {
		c.plainRdArmed++
	}
	if c.closed {
		return 0, net.ErrClosed
	}
	if c.expired {
		return 0, verifTimeoutErr{}
	}
	if c.pos >= len(c.in) && c.script != nil {
		for c.pos >= len(c.in) && c.script(c) {
		}
	}
	if c.pos >= len(c.in) && c.hold != nil {
		<-c.hold
		if c.closed {
			return 0, net.ErrClosed
		}
	}
	if c.pos >= len(c.in) {
		if c.final == nil {
			return 0, io.EOF
		}
		return 0, c.final
	}
	if e, ok := c.faults[c.pos]; ok && !c.fired[c.pos] {
		if c.fired == nil {
			c.fired = map[int]bool{}
		}
		c.fired[c.pos] = true
		if _, isTimeout := e.(verifTimeoutErr); isTimeout {
			c.expired = true
		}
		return 0, e
	}
	if c.onRead != nil {
		c.onRead(c.pos)
	}
	n := len(c.in) - c.pos
	if n > len(b) {
		n = len(b)
	}
	if c.seg > 0 && n > c.seg {
		n = c.seg
	}
	for off := range c.faults {
		if off > c.pos && off < c.pos+n {
			n = off - c.pos
		}
	}
	for _, cut := range c.cuts {
		if cut > c.pos && cut < c.pos+n {
			n = cut - c.pos
		}
	}
	copy(b, c.in[c.pos:c.pos+n])
	c.pos += n
	if c.finalWithData && c.pos >= len(c.in) && c.script == nil && c.hold == nil {
		if c.final == nil {
			return n, io.EOF
		}
		return n, c.final
	}
	return n, nil
}

func (c *vconn) Write(b []byte) (int, error) {
	c.plainWr++
	if c.wrArmed {
		c.plainWrArmed++
	}
	if c.closed {
		return 0, net.ErrClosed
	}
	if c.wblock != nil {
		<-c.wblock
		return 0, net.ErrClosed
	}
	c.out = append(c.out, b...)
	return len(b), nil
}

func (c *vconn) Close() error {
	c.closes++
	c.closed = true
	c.release()
	if c.wblock != nil && c.closes == 1 {
		close(c.wblock)
	}
	return nil
}

// release unblocks a held Read (peer went away / connection closed).
func (c *vconn) release() {
	if c.hold != nil && !c.holdDone {
		c.holdDone = true
		close(c.hold)
	}
}
func (c *vconn) LocalAddr() net.Addr  { return verifAddr{} }
func (c *vconn) RemoteAddr() net.Addr { return verifAddr{} }
func (c *vconn) SetDeadline(t time.Time) error {
	c.expired = false
	c.rdArmed, c.wrArmed = !t.IsZero(), !t.IsZero()
	return nil
}
func (c *vconn) SetReadDeadline(t time.Time) error {
	c.expired = false
	c.rdArmed = !t.IsZero()
	return nil
}
func (c *vconn) SetWriteDeadline(t time.Time) error {
	c.wrArmed = !t.IsZero()
	return nil
}

// TLS stub hooks: the engine's crypto/tls intrinsics route a *tls.Conn that
// wraps a vconn to these methods.
func (c *vconn) verifTLSHandshake() error {
	c.tlsHandshake++
	if c.tlsFail {
		return errors.New("verif: handshake failed")
	}
	return nil
}
func (c *vconn) verifTLSRead(b []byte) (int, error) {
	c.insideRd++
	if c.rdArmed {
		c.insideRdArmed++
	}
	if c.closed {
		return 0, net.ErrClosed
	}
	if c.tlsPos >= len(c.tlsIn) {
		if c.tlsFinal == nil {
			return 0, io.EOF
		}
		return 0, c.tlsFinal
	}
	n := copy(b, c.tlsIn[c.tlsPos:])
	c.tlsPos += n
	return n, nil
}
func (c *vconn) verifTLSWrite(b []byte) (int, error) {
	c.insideWr++
	if c.wrArmed {
		c.insideWrArmed++
	}
	if c.closed {
		return 0, net.ErrClosed
	}
	c.tlsOut = append(c.tlsOut, b...)
	return len(b), nil
}

// ---------------------------------------------------------------------------

type vlogger struct {
	lines int
}

func (l *vlogger) Printf(format string, v ...interface{}) { l.lines++ }
func (l *vlogger) Println(v ...interface{})               { l.lines++ }

// ---------------------------------------------------------------------------
// Recording backend

type vevent struct {
	kind string // NewSession Mail Rcpt Data Reset Logout Auth AuthNext LMTPData
	sess int
	arg  string
	arg2 string
	n    int
	err  error
	ok   bool
}

type vbackend struct {
	trace    []vevent
	sessions int
	// decisions
	newSessionErr error
	mailErr       func(from string) error
	rcptErr       func(to string) error
	dataFn        func(s *vsession, r io.Reader) error
	lmtpFn        func(s *vsession, r io.Reader, st StatusCollector) error
	authSession   bool // sessions implement AuthSession
	lmtpSession   bool // sessions implement LMTPSession
	mechs         []string
	saslFn        func(s *vsession, mech string) (sasl.Server, error)
	onNewSession  func(c *Conn)
	logoutYield   bool  // Logout is slow: other goroutines may run while it is in progress
	logoutErr     error // Logout's return value
	helloSeen     []string
	tlsSeen       []bool
	lastSession   *vsession
}

func (b *vbackend) NewSession(c *Conn) (Session, error) {
	b.helloSeen = append(b.helloSeen, c.Hostname())
	_, isTLS := c.TLSConnectionState()
	b.tlsSeen = append(b.tlsSeen, isTLS)
	if b.onNewSession != nil {
		b.onNewSession(c)
	}
	if b.newSessionErr != nil {
		b.trace = append(b.trace, vevent{kind: "NewSession", sess: -1, err: b.newSessionErr})
		return nil, b.newSessionErr
	}
	b.sessions++
	s := &vsession{b: b, id: b.sessions}
	b.lastSession = s
	b.trace = append(b.trace, vevent{kind: "NewSession", sess: s.id})
	switch {
	case b.authSession && b.lmtpSession:
		return &vauthLmtpSession{vsession: s}, nil
	case b.authSession:
		return &vauthSession{vsession: s}, nil
	case b.lmtpSession:
		return &vlmtpSession{vsession: s}, nil
	}
	return s, nil
}

type vsession struct {
	b         *vbackend
	id        int
	loggedOut int
	data      [][]byte
	dataErrs  []error
	mailOpts  []*MailOptions
	rcptOpts  []*RcptOptions
}

func (s *vsession) Reset() {
	s.b.trace = append(s.b.trace, vevent{kind: "Reset", sess: s.id})
}
func (s *vsession) Logout() error {
	if s.b.logoutYield {
		verifYield()
	}
	s.loggedOut++
	s.b.trace = append(s.b.trace, vevent{kind: "Logout", sess: s.id})
	if s.b.logoutYield {
		verifYield()
	}
	return s.b.logoutErr
}
func (s *vsession) Mail(from string, opts *MailOptions) error {
	var err error
	if s.b.mailErr != nil {
		err = s.b.mailErr(from)
	}
	s.mailOpts = append(s.mailOpts, opts)
	s.b.trace = append(s.b.trace, vevent{kind: "Mail", sess: s.id, arg: from, err: err})
	return err
}
func (s *vsession) Rcpt(to string, opts *RcptOptions) error {
	var err error
	if s.b.rcptErr != nil {
		err = s.b.rcptErr(to)
	}
	s.rcptOpts = append(s.rcptOpts, opts)
	s.b.trace = append(s.b.trace, vevent{kind: "Rcpt", sess: s.id, arg: to, err: err})
	return err
}
func (s *vsession) Data(r io.Reader) error {
	idx := len(s.b.trace)
	s.b.trace = append(s.b.trace, vevent{kind: "Data", sess: s.id})
	var err error
	if s.b.dataFn != nil {
		err = s.b.dataFn(s, r)
	} else {
		var b []byte
		b, err = verifReadAll(r, 4)
		s.data = append(s.data, b)
		if err == io.EOF {
			err = nil
		}
	}
	s.b.trace[idx].err = err
	return err
}

// verifReadAll reads r to its end with the given buffer size. Returns the
// octets and the terminating error (io.EOF for a clean end).
func verifReadAll(r io.Reader, bufsz int) ([]byte, error) {
	out := []byte{}
	buf := make([]byte, bufsz)
	for i := 0; i < 10000; i++ {
		n, err := r.Read(buf)
		out = append(out, buf[:n]...)
		if err != nil {
			return out, err
		}
	}
	return out, errors.New("verif: reader did not terminate")
}

type vlmtpSession struct{ *vsession }

func (s *vlmtpSession) LMTPData(r io.Reader, st StatusCollector) error {
	idx := len(s.b.trace)
	s.b.trace = append(s.b.trace, vevent{kind: "LMTPData", sess: s.id})
	var err error
	if s.b.lmtpFn != nil {
		err = s.b.lmtpFn(s.vsession, r, st)
	} else {
		var b []byte
		b, err = verifReadAll(r, 4)
		s.data = append(s.data, b)
		if err == io.EOF {
			err = nil
		}
	}
	s.b.trace[idx].err = err
	return err
}

type vauthSession struct{ *vsession }

func (s *vauthSession) AuthMechanisms() []string { return s.b.mechs }
func (s *vauthSession) Auth(mech string) (sasl.Server, error) {
	s.b.trace = append(s.b.trace, vevent{kind: "Auth", sess: s.id, arg: mech})
	if s.b.saslFn != nil {
		return s.b.saslFn(s.vsession, mech)
	}
	return nil, ErrAuthUnknownMechanism
}

type vauthLmtpSession struct{ *vsession }

func (s *vauthLmtpSession) AuthMechanisms() []string { return s.b.mechs }
func (s *vauthLmtpSession) Auth(mech string) (sasl.Server, error) {
	return (&vauthSession{s.vsession}).Auth(mech)
}
func (s *vauthLmtpSession) LMTPData(r io.Reader, st StatusCollector) error {
	return (&vlmtpSession{s.vsession}).LMTPData(r, st)
}

// ---------------------------------------------------------------------------

// verifServer builds a Server the way NewServer does, with the recording
// logger and harness-chosen limits.
func verifServer(be Backend) (*Server, *vlogger) {
	lg := &vlogger{}
	s := &Server{
		MaxLineLength: 2000,
		Backend:       be,
		done:          make(chan struct{}, 1),
		ErrorLog:      lg,
		conns:         make(map[*Conn]struct{}),
		Domain:        "verif.example",
	}
	return s, lg
}

// verifServe runs the real connection loop over the given input.
func verifServe(s *Server, in []byte, final error) (*vconn, *Conn, error) {
	vc := &vconn{in: in, final: final}
	c := newConn(vc, s)
	err := s.handleConn(c)
	verifSettle()
	return vc, c, err
}

func (b *vbackend) count(kind string) int {
	n := 0
	for _, e := range b.trace {
		if e.kind == kind {
			n++
		}
	}
	return n
}

func (b *vbackend) find(kind, arg string) int {
	for i, e := range b.trace {
		if e.kind == kind && e.arg == arg {
			return i
		}
	}
	return -1
}

// ---------------------------------------------------------------------------
// Strict reply parser (RFC 5321 §4.2, RFC 2034): used as the oracle for reply
// well-formedness.

type vreply struct {
	code  int
	lines []string
	enh   [3]int
	hasEn bool
}

// verifParseReplies parses out into replies; ok=false on any syntax error.
func verifParseReplies(out []byte) (reps []vreply, ok bool) {
	i := 0
	var cur *vreply
	for i < len(out) {
		// find CRLF
		j := i
		for j < len(out) && out[j] != '\n' {
			j++
		}
		if j >= len(out) || j == i || out[j-1] != '\r' {
			return reps, false
		}
		line := out[i : j-1]
		i = j + 1
		if len(line) < 4 {
			return reps, false
		}
		for k := 0; k < 3; k++ {
			if line[k] < '0' || line[k] > '9' {
				return reps, false
			}
		}
		code := int(line[0]-'0')*100 + int(line[1]-'0')*10 + int(line[2]-'0')
		if code < 200 || code > 599 {
			return reps, false
		}
		sep := line[3]
		if sep != ' ' && sep != '-' {
			return reps, false
		}
		text := line[4:]
		for _, ch := range text {
			if ch == '\r' || ch == '\n' || ch == 0 || (ch < 0x20 && ch != '\t') || ch == 0x7f {
				return reps, false
			}
		}
		if cur == nil {
			cur = &vreply{code: code}
		} else if cur.code != code {
			return reps, false
		}
		cur.lines = append(cur.lines, string(text))
		if sep == ' ' {
			// enhanced code on the last line
			cur.enh, cur.hasEn = verifParseEnh(string(text))
			reps = append(reps, *cur)
			cur = nil
		}
	}
	if cur != nil {
		return reps, false
	}
	return reps, true
}

func verifParseEnh(s string) (e [3]int, ok bool) {
	i := 0
	for k := 0; k < 3; k++ {
		st := i
		v := 0
		for i < len(s) && s[i] >= '0' && s[i] <= '9' && i-st < 3 {
			v = v*10 + int(s[i]-'0')
			i++
		}
		if i == st {
			return e, false
		}
		e[k] = v
		if k < 2 {
			if i >= len(s) || s[i] != '.' {
				return e, false
			}
			i++
		}
	}
	if i >= len(s) || s[i] != ' ' {
		return e, false
	}
	return e, true
}
