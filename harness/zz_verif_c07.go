package smtp

import (
	"crypto/tls"
	"io"
	"net"
	"strconv"
	"time"
)

// verif_C07_data_cut: a DATA conversation with arbitrary body octets is cut at
// an arbitrary byte offset; then the connection ends with EOF, a timeout or
// "use of closed connection". Oracle: the backend's reader may report EOF only
// if the complete message, through its end marker, was inside the delivered
// prefix; otherwise its final error is non-nil and not EOF and no positive
// final reply is written.
func verif_C07_data_cut() {
	L := verifBound(3, 4)
	msg := nondetBytesN(L)
	lmtp := nondetBool()
	perRcpt := false
	if lmtp {
		perRcpt = nondetBool()
	}
	hello := "EHLO c\r\n"
	if lmtp {
		hello = "LHLO c\r\n"
	}
	head := hello + "MAIL FROM:<s@v>\r\nRCPT TO:<r@v>\r\nDATA\r\n"
	stream := append(append([]byte{}, msg...), "\r\n.\r\n"...)
	in := append([]byte(head), stream...)
	cut := nondetInt(len(head), len(in))
	var final error
	switch verifChoice(3) {
	case 0:
		final = io.EOF
	case 1:
		final = verifTimeoutErr{}
	case 2:
		final = net.ErrClosed
	}
	var got []byte
	var rerr error
	called := false
	be := &vbackend{lmtpSession: perRcpt}
	lateEOF := false
	consume := func(r io.Reader) error {
		called = true
		got, rerr = verifReadAll(r, 3)
		if rerr == io.EOF {
			return nil
		}
		// a backend (or the bufio / io.Copy plumbing inside it) may well read
		// again after an error: the reader must not turn into a clean end
		for i := 0; i < 2; i++ {
			if n, e := r.Read(make([]byte, 3)); e == io.EOF || n > 0 {
				lateEOF = true
			}
		}
		return rerr
	}
	be.dataFn = func(_ *vsession, r io.Reader) error { return consume(r) }
	be.lmtpFn = func(_ *vsession, r io.Reader, _ StatusCollector) error { return consume(r) }
	s, _ := verifServer(be)
	s.LMTP = lmtp
	// a size limit somewhere around the message (0 = none): where the budget
	// runs out is one more place at which the stream may end
	limit := []int{0, 2, L + 1}[verifChoice(3)]
	s.MaxMessageBytes = int64(limit)
	// the last octets arrive alone, or together with the end of the connection
	vc := &vconn{in: in[:cut], final: final, finalWithData: nondetBool()}
	sc := newConn(vc, s)
	s.handleConn(sc)
	verifSettle()

	delivered := in[len(head):cut]
	body, _, complete := refUnstuff(delivered)
	tooLarge := limit > 0 && len(body) > limit
	verifAssert(called, "C07.data-called")
	reps, wf := verifParseReplies(vc.out)
	verifAssert(wf, "C07.replies-wellformed")
	// replies: greeting, hello, mail, rcpt, 354, [final...]
	positives := 0
	for i := 5; i < len(reps); i++ {
		if reps[i].code/100 == 2 {
			positives++
		}
	}
	verifObserve("c07", msg, cut, lmtp, perRcpt, limit, complete, rerr == io.EOF, len(got), positives)
	if complete && tooLarge {
		verifReach("C07.complete-too-large")
		verifAssert(rerr != nil && rerr != io.EOF && len(got) <= limit, "C07.too-large-message-never-eof")
		verifAssert(positives == 0, "C07.too-large-message-no-positive-reply")
	} else if complete {
		verifReach("C07.complete")
		verifAssert(rerr == io.EOF, "C07.complete-message-ends-with-eof")
		verifAssert(string(got) == string(body), "C07.complete-message-intact")
	} else {
		verifReach("C07.incomplete")
		verifAssert(rerr != nil && rerr != io.EOF, "C07.incomplete-message-never-eof")
		verifAssert(positives == 0, "C07.incomplete-message-no-positive-reply")
		verifAssert(verifIsPrefix(got, body), "C07.partial-octets-are-a-prefix")
	}
	verifAssert(!lateEOF, "C07.reader-stays-failed-after-an-error")
	verifAssert(verifGoroutinesAlive() == 0, "C07.no-goroutine-left")
}

// verif_C07_bdat_cut: a two-chunk BDAT conversation cut at every byte offset
// (inside a chunk, inside the LAST chunk, between chunks), then EOF / timeout.
// Oracle as for DATA: EOF for the backend only if every declared octet through
// the LAST chunk was delivered; otherwise a non-EOF error and no 2xx reply for
// the LAST chunk.
func verif_C07_bdat_cut() {
	verifPreemptBound(0)
	c1 := nondetBytesN(2)
	c2 := nondetBytesN(3)
	head := "EHLO c\r\nMAIL FROM:<s@v>\r\nRCPT TO:<r@v>\r\n"
	in := []byte(head + "BDAT 2\r\n")
	in = append(in, c1...)
	lastCmdAt := len(in)
	in = append(in, "BDAT 3 LAST\r\n"...)
	in = append(in, c2...)
	full := len(in)
	cut := nondetInt(len(head), full)
	var final error = io.EOF
	if nondetBool() {
		final = verifTimeoutErr{}
	}
	var got []byte
	var rerr error
	called := false
	be := &vbackend{}
	be.dataFn = func(_ *vsession, r io.Reader) error {
		called = true
		got, rerr = verifReadAll(r, 2)
		if rerr == io.EOF {
			return nil
		}
		return rerr
	}
	s, _ := verifServer(be)
	vc, _, _ := verifServe(s, in[:cut], final)
	reps, wf := verifParseReplies(vc.out)
	verifAssert(wf, "C07.bdat-replies-wellformed")
	complete := cut == full
	all := append(append([]byte{}, c1...), c2...)
	verifObserve("c07b", cut, complete, called, rerr == io.EOF, len(got), len(reps))
	if called {
		verifReach("C07.bdat-data-called")
		if complete {
			verifReach("C07.bdat-complete")
			verifAssert(rerr == io.EOF && string(got) == string(all), "C07.bdat-complete-message-intact")
		} else {
			verifReach("C07.bdat-incomplete")
			verifAssert(rerr != nil && rerr != io.EOF, "C07.bdat-incomplete-never-eof")
			verifAssert(verifIsPrefix(got, all), "C07.bdat-partial-is-prefix")
		}
	}
	if !complete && wf {
		// replies: 220, ehlo, mail, rcpt, [chunk1 250], [last ...]
		// no positive reply may exist for the LAST chunk
		nlast := 0
		if cut > lastCmdAt && len(reps) > 5 {
			for _, r := range reps[5:] {
				if r.code/100 == 2 {
					nlast++
				}
			}
		}
		verifAssert(nlast == 0, "C07.bdat-incomplete-no-positive-final-reply")
	}
	verifAssert(verifGoroutinesAlive() == 0, "C07.bdat-no-goroutine-left")
}

// verif_C07_abandon: a first chunk, then the client abandons the transfer with
// RSET, QUIT, a new EHLO, a new MAIL, or by disconnecting. The backend's
// reader must fail (never EOF) and no goroutine may be left.
func verif_C07_abandon() {
	verifPreemptBound(0)
	c1 := nondetBytesN(2)
	in := []byte("EHLO c\r\nMAIL FROM:<s@v>\r\nRCPT TO:<r@v>\r\nBDAT 2\r\n")
	in = append(in, c1...)
	how := verifChoice(5)
	in = append(in, []string{"RSET\r\n", "QUIT\r\n", "EHLO again\r\n", "", "DATA\r\n"}[how]...)
	var got []byte
	var rerr error
	be := &vbackend{}
	be.dataFn = func(_ *vsession, r io.Reader) error {
		got, rerr = verifReadAll(r, 2)
		if rerr == io.EOF {
			return nil
		}
		return rerr
	}
	s, _ := verifServer(be)
	vc, _, _ := verifServe(s, in, io.EOF)
	reps, wf := verifParseReplies(vc.out)
	verifObserve("c07a", how, rerr == io.EOF, len(got), wf, len(reps))
	verifAssert(wf, "C07.abandon-replies-wellformed")
	verifAssert(be.count("Data") == 1, "C07.abandon-data-called-once")
	verifAssert(rerr != nil && rerr != io.EOF, "C07.abandoned-transfer-never-eof")
	verifAssert(string(got) == string(c1), "C07.abandoned-transfer-octets")
	verifAssert(verifGoroutinesAlive() == 0, "C07.abandon-no-goroutine-left")
	verifReach("C07.abandon-end")
}

// verif_C07_timeout: the read deadline expires at an ARBITRARY offset inside a
// BDAT chunk (accepted LAST chunk, accepted non-LAST chunk, or the chunk of a
// refused BDAT); the peer is slow, not gone: the rest of the chunk - which looks
// like a command line - arrives afterwards. The backend never reads EOF, no
// positive reply is given for the cut chunk and no octet of it is executed.
func verif_C07_timeout() { verifChunkTimeout("C07") }

// verifChunkTimeout: shared by C07 (the cut chunk is never complete) and C08
// (a read deadline that expires inside a chunk gives the connection up: nothing
// is executed afterwards, the session is logged out once and nothing runs on it
// after that).
func verifChunkTimeout(prop string) {
	verifPreemptBound(verifBound(1, 2))
	shape := verifChoice(3) // 0 accepted LAST chunk, 1 accepted non-LAST chunk, 2 refused BDAT (no transaction)
	mode := verifChoice(3)  // 0 SMTP, 1 LMTP plain session, 2 LMTP per-recipient session
	// (a per-recipient backend that sets its verdict before it reads is left
	// out here: when the read fails before the delivery goroutine has started,
	// the server has filled in the statuses already and that SetStatus panics
	// inside the backend - recovered and logged, no protocol effect)
	early := false
	chunk := "ab\r\nMAIL FROM:<bait@v>\r\ncd"
	head := "EHLO c\r\n"
	if mode != 0 {
		head = "LHLO c\r\n"
	}
	nhead := 2 // greeting + EHLO
	line := "BDAT " + strconv.Itoa(len(chunk))
	switch shape {
	case 0:
		head += "MAIL FROM:<s@v>\r\nRCPT TO:<r@v>\r\n"
		nhead += 2
		line += " LAST"
	case 1:
		head += "MAIL FROM:<s@v>\r\nRCPT TO:<r@v>\r\n"
		nhead += 2
	}
	head += line + "\r\n"
	tail := "\r\nMAIL FROM:<marker@v>\r\n"
	at := nondetInt(0, len(chunk)-1)
	var rerr error
	var got []byte
	be := &vbackend{lmtpSession: mode == 2}
	be.dataFn = func(_ *vsession, r io.Reader) error {
		got, rerr = verifReadAll(r, 3)
		if rerr == io.EOF {
			return nil
		}
		return rerr
	}
	be.lmtpFn = func(_ *vsession, r io.Reader, st StatusCollector) error {
		if early {
			st.SetStatus("r@v", verifErrBackend())
		}
		got, rerr = verifReadAll(r, 3)
		if rerr == io.EOF {
			return nil
		}
		return rerr
	}
	s, _ := verifServer(be)
	s.LMTP = mode != 0
	s.ReadTimeout = time.Second
	vc := &vconn{in: []byte(head + chunk + tail), final: io.EOF}
	vc.faults = map[int]error{len(head) + at: verifTimeoutErr{}}
	c := newConn(vc, s)
	s.handleConn(c)
	verifSettle()
	reps, wf := verifParseReplies(vc.out)
	verifObserve("c07to", shape, mode, early, at)
	verifAssert(wf, prop+".timeout-replies-wellformed")
	verifAssert(be.find("Mail", "bait@v") < 0, prop+".timeout-no-chunk-octet-executed")
	if shape != 2 {
		verifAssert(be.count("Data")+be.count("LMTPData") == 1 && rerr != nil && rerr != io.EOF, prop+".timeout-backend-never-reads-eof")
		verifAssert(verifIsPrefix(got, []byte(chunk)), prop+".timeout-octets-are-a-prefix")
	}
	if wf && len(reps) > nhead {
		verifAssert(reps[nhead].code/100 != 2, prop+".timeout-no-positive-reply")
	}
	verifAssert(verifGoroutinesAlive() == 0, prop+".timeout-no-goroutine-left")
	verifReach(prop + ".timeout-end")
	if prop == "C08" {
		verifAssert(vc.closed, prop+".timeout-connection-given-up")
		verifAssert(be.find("Mail", "marker@v") < 0 && be.sessions == 1, prop+".timeout-nothing-executed-afterwards")
		rule := verifTraceOrder(be.trace)
		verifAssert(rule == "" || rule == "delivery-begins-after-logout", prop+".timeout-callback-order-per-session")
		verifAssert(be.count("Logout") == 1, prop+".timeout-logged-out-once")
		// Listed known finding (known_findings.json): when the read fails in
		// front of the FIRST octet of a chunk, nothing has forced the delivery
		// goroutine to start yet, and the command loop gives the connection
		// up - Logout - before the backend's Data call begins. Kept as the last
		// assertion so that the tag covers nothing else.
		verifKnown("KF-C08-delivery-starts-after-logout", true)
		verifAssert(rule != "delivery-begins-after-logout", prop+".timeout-no-delivery-begins-after-logout")
	}
}

// verif_C07_bdat_huge: a BDAT (LAST or not) that announces a size at an integer
// boundary (2^31-1 .. 2^64) of which only 0..2 octets arrive before the
// connection ends, as the first chunk or after a complete one, with and without
// a size limit. Whatever the arithmetic makes of the size, the chunk has not
// been received in full: no positive reply for it, and the backend - if it was
// called at all - never reads EOF.
func verif_C07_bdat_huge() {
	verifPreemptBound(0)
	sizes := []string{"2147483647", "2147483648", "4294967295", "4294967296", "9223372036854775807",
		"9223372036854775808", "18446744073709551606", "18446744073709551615", "18446744073709551616"}
	size := sizes[verifChoice(len(sizes))]
	last := nondetBool()
	after := nondetBool() // a complete 2-octet chunk first
	limit := nondetBool()
	lmtp := nondetBool()
	have := nondetBytesN(nondetInt(0, 2))
	hello := "EHLO c\r\n"
	if lmtp {
		hello = "LHLO c\r\n"
	}
	in := hello + "MAIL FROM:<s@v>\r\nRCPT TO:<r@v>\r\n"
	npre := 4
	if after {
		in += "BDAT 2\r\nab"
		npre++
	}
	in += "BDAT " + size
	if last {
		in += " LAST"
	}
	in += "\r\n" + string(have)
	var rerr error
	called := false
	be := &vbackend{}
	be.dataFn = func(_ *vsession, r io.Reader) error {
		called = true
		_, rerr = verifReadAll(r, 3)
		if rerr == io.EOF {
			return nil
		}
		return rerr
	}
	s, _ := verifServer(be)
	s.LMTP = lmtp
	if limit {
		s.MaxMessageBytes = 1000
	}
	vc, _, _ := verifServe(s, []byte(in), io.EOF)
	reps, wf := verifParseReplies(vc.out)
	verifObserve("c07huge", size, last, after, limit, lmtp, len(have), wf, len(reps), called, rerr == io.EOF)
	verifAssert(wf, "C07.huge-replies-wellformed")
	if called {
		verifAssert(rerr != nil && rerr != io.EOF, "C07.huge-backend-never-reads-eof")
	}
	if wf {
		for _, r := range reps[npre:] {
			verifAssert(r.code/100 != 2, "C07.huge-no-positive-reply")
		}
	}
	verifAssert(verifGoroutinesAlive() == 0, "C07.huge-no-goroutine-left")
	verifReach("C07.huge-end")
}

// verif_C07_abandon_starttls_stub: the client abandons a chunked transfer by
// upgrading the connection: MAIL, RCPT, a non-LAST chunk, STARTTLS (successful
// handshake), then inside TLS a new greeting and a LAST chunk. The backend's
// reader of the abandoned transfer fails with a non-EOF error, the LAST chunk
// is refused (there is no transaction), nothing is delivered.
func verif_C07_abandon_starttls_stub() {
	verifPreemptBound(0)
	var got []byte
	var rerr error
	be := &vbackend{}
	be.dataFn = func(_ *vsession, r io.Reader) error {
		got, rerr = verifReadAll(r, 4)
		if rerr == io.EOF {
			return nil
		}
		return rerr
	}
	s, _ := verifServer(be)
	s.TLSConfig = &tls.Config{}
	plain := "EHLO p.example\r\nMAIL FROM:<s@v>\r\nRCPT TO:<r@v>\r\nBDAT 5\r\nhelloSTARTTLS\r\n"
	helloFirst := nondetBool()
	inside := ""
	if helloFirst {
		inside = "EHLO i.example\r\n"
	}
	inside += "BDAT 5 LAST\r\nworldNOOP\r\n"
	vc := &vconn{in: []byte(plain), final: io.EOF, tlsIn: []byte(inside), tlsFinal: io.EOF}
	conn := newConn(vc, s)
	s.handleConn(conn)
	verifSettle()
	ireps, wf := verifParseReplies(vc.tlsOut)
	verifObserve("c07tls", helloFirst, wf, len(ireps), len(got), rerr == io.EOF)
	k := 0
	if helloFirst {
		k = 1
	}
	verifAssert(wf && len(ireps) == k+2, "C07.starttls-abandon-replies")
	verifAssert(be.count("Data") == 1 && rerr != nil && rerr != io.EOF, "C07.starttls-abandoned-transfer-never-eof")
	verifAssert(string(got) == "hello" || verifIsPrefix(got, []byte("hello")), "C07.starttls-abandon-octets-are-a-prefix")
	if wf && len(ireps) == k+2 {
		verifAssert(ireps[k].code/100 == 5, "C07.starttls-last-chunk-without-transaction-refused")
		verifAssert(ireps[k+1].code == 250, "C07.starttls-command-mode-after")
	}
	verifAssert(verifGoroutinesAlive() == 0, "C07.starttls-abandon-no-goroutine-left")
	verifReach("C07.starttls-abandon-end")
}
