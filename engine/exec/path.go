package exec

import (
	"fmt"
	"go/token"
	"sort"
	"strings"

	"verif/gosym/sym"
)

// Decision is one solver- or scheduler-decided step of a path. A path is
// identified by its decision vector; exploring a path means re-executing the
// harness from the start following the vector.
type Decision struct {
	K byte   // 'b' branch, 'c' n-way choice, 'v' concretised value, 'a' assume, 'A' assertion outcome
	V uint64 // b: 1=true 0=false; c: alternative; v: value; a: 1; A: 0=holds 1=violated(continue) 2=violated(end)
}

type abortKind int

const (
	abortAssume abortKind = iota // path pruned by assume / infeasible
	abortInconclusive
	abortEndPath     // harness asked to stop (e.g. after violation with no way on)
	abortKilled      // goroutine torn down at path end
	abortDeadlock    // all goroutines blocked
	abortBudgetSteps // unwinding failure
)

type pathAbort struct {
	kind   abortKind
	reason string
}

// Nondet records one symbolic input created on the path, in call order.
type Nondet struct {
	Name string    `json:"name"`
	Kind string    `json:"kind"` // bool, u8, i32, i64, len, choice
	W    uint8     `json:"w"`
	T    *sym.Term `json:"-"`
	Conc bool      `json:"-"` // pinned concrete (replay mode)
	CV   uint64    `json:"-"`
}

// Violation is an assertion that the solver showed can fail on some path.
type Violation struct {
	Label    string
	Pos      string
	Inputs   []uint64 // model value per nondet, call order
	Kinds    []string
	Sched    []uint64 // values of 'c' decisions, in order
	Spawned  bool     // goroutines other than the harness's own ran on this path: a native run may interleave them differently
	Known    []string // ids of known findings matching (all violating inputs on the path are listed)
	Unlisted bool     // some violating input on this path is not covered by a known finding
	Trace    []Decision
	Observes []string
}

// PathResult summarises one executed path.
type PathResult struct {
	Trace      []Decision
	Pending    [][]Decision
	Aborted    bool
	AbortKind  abortKind
	Reason     string
	Violations []Violation
	Reached    map[string]bool
	Observes   []string
	Steps      int64
	Branches   int // solver-decided decisions made new on this path
	Choices    int // scheduler / harness n-way choices made new on this path
	AssertsSolver,
	AssertsConcrete int
	SampleInputs []uint64
	SampleKinds  []string
	PanicEvents  []string
	Races        []string
	Witnesses    []Violation
}

type knownCond struct {
	id   string
	cond value
}

// per-path state lives directly in Exec (reset by beginPath).
type pathState struct {
	prefix   []Decision
	pos      int
	trace    []Decision
	pending  [][]Decision
	pc       []*sym.Term
	nondets  []*Nondet
	steps    int64
	reached  map[string]bool
	observes []string
	viol     []Violation
	knowns   []knownCond
	branches int
	assertsS int
	assertsC int
	panics   []string
	pinned   []uint64 // concrete replay values (validation mode)
	pinMode  bool
	schedPin []uint64
	curPos   token.Pos

	deadlocked   bool
	deadlockDesc string
	preemptions  int
	schedForks   int
	sampleWanted bool
	choices      int
	dom          map[*sym.Term]sym.Set256
	entangled    map[*sym.Term]bool
	witnesses    []Violation
}

func (ex *Exec) beginPath(prefix []Decision) {
	ex.ps = pathState{prefix: prefix, reached: map[string]bool{}, dom: map[*sym.Term]sym.Set256{}, entangled: map[*sym.Term]bool{}}
	if ex.pinNext != nil {
		ex.ps.pinMode = true
		ex.ps.pinned = ex.pinNext.vals
		ex.ps.schedPin = ex.pinNext.sched
		ex.pinNext = nil
	}
	ex.ctx.ResetKnown()
	ex.solver.Push()
	if ex.solver2 != nil {
		ex.solver2.Push()
	}
}

func (ex *Exec) endPath() {
	for ex.solver.Depth() > 0 {
		ex.solver.Pop()
	}
	if ex.solver2 != nil {
		for ex.solver2.Depth() > 0 {
			ex.solver2.Pop()
		}
	}
}

func (ex *Exec) inconclusive(reason string) {
	panic(pathAbort{abortInconclusive, reason + ex.where()})
}

func (ex *Exec) where() string {
	if ex.cur != nil && ex.cur.fr != nil {
		fr := ex.cur.fr
		pos := ex.ps.curPos
		if pos.IsValid() {
			return fmt.Sprintf(" [in %s at %s]", fr.fn, ex.prog.Fset.Position(pos))
		}
		return fmt.Sprintf(" [in %s]", fr.fn)
	}
	return ""
}

// addPC asserts t on the path and records equality facts for propagation.
func (ex *Exec) addPC(t *sym.Term) {
	if t == ex.ctx.True {
		return
	}
	ex.ps.pc = append(ex.ps.pc, t)
	ex.solver.Assert(t)
	if ex.solver2 != nil {
		ex.solver2.Assert(t)
	}
	ex.noteConstraint(t)
	ex.learn(t, true)
}

func (ex *Exec) learn(t *sym.Term, val bool) {
	c := ex.ctx
	switch {
	case t.Op == sym.OpNot:
		ex.learn(t.A, !val)
		return
	case t.Op == sym.OpAnd && val:
		ex.learn(t.A, true)
		ex.learn(t.B, true)
	case t.Op == sym.OpOr && !val:
		ex.learn(t.A, false)
		ex.learn(t.B, false)
	case t.Op == sym.OpEq && val:
		if t.B.IsConst() && !t.A.IsConst() {
			c.Known[t.A] = t.B
		} else if t.A.IsConst() && !t.B.IsConst() {
			c.Known[t.B] = t.A
		}
	}
	if !t.IsConst() {
		c.Known[t] = c.Bool(val)
		if t.Op != sym.OpNot {
			n := c.Not(t)
			if !n.IsConst() {
				c.Known[n] = c.Bool(!val)
			}
		}
	}
}

func (ex *Exec) record(d Decision) {
	ex.ps.trace = append(ex.ps.trace, d)
}

func (ex *Exec) replaying() bool { return ex.ps.pos < len(ex.ps.prefix) }

func (ex *Exec) nextReplay(k byte) Decision {
	d := ex.ps.prefix[ex.ps.pos]
	ex.ps.pos++
	if d.K != k {
		panic(fmt.Sprintf("engine: replay divergence at %d: want %c got %c%s", ex.ps.pos-1, k, d.K, ex.where()))
	}
	return d
}

func (ex *Exec) pushAlt(d Decision) {
	alt := make([]Decision, len(ex.ps.trace)+1)
	copy(alt, ex.ps.trace)
	alt[len(ex.ps.trace)] = d
	ex.ps.pending = append(ex.ps.pending, alt)
}

// branch decides a symbolic condition. Both sides are explored when the
// solver finds both satisfiable under the path condition.
func (ex *Exec) branch(cv value) bool {
	if b, ok := cv.(bool); ok {
		return b
	}
	t := cv.(*sym.Term)
	if k, ok := ex.ctx.Known[t]; ok {
		return k == ex.ctx.True
	}
	if ex.replaying() {
		d := ex.nextReplay('b')
		ex.record(d)
		if d.V == 1 {
			ex.addPC(t)
			return true
		}
		ex.addPC(ex.ctx.Not(t))
		return false
	}
	ex.ps.branches++
	rt := ex.feasible(t)
	var rf sym.Result
	if rt == sym.Unsat {
		rf = sym.Sat // PC is satisfiable, so the other side is
	} else {
		rf = ex.feasible(ex.ctx.Not(t))
	}
	if rt == sym.Unknown || rf == sym.Unknown {
		ex.inconclusive("solver returned unknown on a branch condition")
	}
	switch {
	case rt == sym.Sat && rf == sym.Sat:
		ex.pushAlt(Decision{'b', 0})
		ex.record(Decision{'b', 1})
		ex.addPC(t)
		return true
	case rt == sym.Sat:
		// forced: recorded (so replay stays aligned) but without alternative
		ex.record(Decision{'b', 1})
		ex.addPC(t)
		return true
	case rf == sym.Sat:
		ex.record(Decision{'b', 0})
		ex.addPC(ex.ctx.Not(t))
		return false
	}
	panic(pathAbort{abortAssume, "path condition became unsatisfiable"})
}

// feasible: is PC ∧ t satisfiable? A condition over a single 8-bit variable
// that so far occurs only in single-variable path constraints is decided by
// evaluating it on the variable's remaining domain (complete for that
// fragment); everything else goes to the SMT solver.
func (ex *Exec) feasible(t *sym.Term) sym.Result {
	if ex.FastPath {
		if v := t.OneVar(); v != nil && v.W == 8 && !ex.ps.entangled[v] {
			ts := ex.ctx.TruthSet(t)
			d, ok := ex.ps.dom[v]
			if !ok {
				d = sym.FullSet()
			}
			for i := range ts {
				ts[i] &= d[i]
			}
			ex.FastDecided++
			if ex.CrossCheck && ex.FastDecided%97 == 0 {
				r := ex.solver.CheckWith(t)
				if (r == sym.Sat) == ts.Empty() {
					panic(fmt.Sprintf("engine: fast path disagrees with solver on %s", sym.SMT(t)))
				}
			}
			if ts.Empty() {
				return sym.Unsat
			}
			return sym.Sat
		}
	}
	return ex.solver.CheckWith(t)
}

// noteConstraint maintains the per-variable octet domains for the fast path.
func (ex *Exec) noteConstraint(t *sym.Term) {
	if !ex.FastPath {
		return
	}
	if v := t.OneVar(); v != nil && v.W == 8 {
		if ex.ps.entangled[v] {
			return
		}
		ts := ex.ctx.TruthSet(t)
		d, ok := ex.ps.dom[v]
		if !ok {
			d = sym.FullSet()
		}
		for i := range ts {
			d[i] &= ts[i]
		}
		ex.ps.dom[v] = d
		return
	}
	if t.NumVarsSat() >= 2 {
		var vs []*sym.Term
		sym.Vars(t, map[*sym.Term]bool{}, &vs)
		for _, v := range vs {
			ex.ps.entangled[v] = true
		}
	}
}

// choose forks over n alternatives that are all feasible by construction.
// kind 's' = scheduler choice, 'c' = explicit harness choice (verifChoice).
func (ex *Exec) choose(n int, why string) int { return ex.chooseK('s', n, why) }

func (ex *Exec) chooseK(kind byte, n int, why string) int {
	if n <= 1 {
		return 0
	}
	if ex.ps.pinMode {
		if kind == 's' && len(ex.ps.schedPin) > 0 {
			v := ex.ps.schedPin[0]
			ex.ps.schedPin = ex.ps.schedPin[1:]
			if int(v) >= n {
				v = 0
			}
			ex.record(Decision{kind, v})
			return int(v)
		}
		ex.record(Decision{kind, 0})
		return 0
	}
	if ex.replaying() {
		d := ex.nextReplay(kind)
		ex.record(d)
		return int(d.V)
	}
	ex.ps.choices++
	for i := 1; i < n; i++ {
		ex.pushAlt(Decision{kind, uint64(i)})
	}
	ex.record(Decision{kind, 0})
	return 0
}

// concretize forks over every feasible value of t (at most limit values;
// more is an unwinding failure).
func (ex *Exec) concretize(v value, limit int, why string) uint64 {
	if u, ok := v.(uint64); ok {
		return u
	}
	t := v.(*sym.Term)
	if k, ok := ex.ctx.Known[t]; ok && k.IsConst() {
		return k.Val
	}
	if ex.replaying() {
		d := ex.nextReplay('v')
		ex.record(d)
		ex.addPC(ex.ctx.Eq(t, ex.ctx.BV(d.V, t.W)))
		return d.V
	}
	ex.ps.branches++
	cv := ex.ctx.Var(fmt.Sprintf("cv%d_%d", len(ex.ps.trace), t.W), t.W)
	extra := []*sym.Term{ex.ctx.Eq(cv, t)}
	var vals []uint64
	for {
		r, m := ex.solver.ModelWith([]*sym.Term{cv}, extra...)
		if r == sym.Unknown {
			ex.inconclusive("solver returned unknown while concretising " + why)
		}
		if r == sym.Unsat {
			break
		}
		val := m[cv]
		vals = append(vals, val)
		if len(vals) > limit {
			panic(pathAbort{abortBudgetSteps, fmt.Sprintf("unwinding: more than %d feasible values while concretising %s%s", limit, why, ex.where())})
		}
		extra = append(extra, ex.ctx.Not(ex.ctx.Eq(cv, ex.ctx.BV(val, t.W))))
	}
	if len(vals) == 0 {
		panic(pathAbort{abortAssume, "path condition became unsatisfiable"})
	}
	sort.Slice(vals, func(i, j int) bool { return vals[i] < vals[j] })
	for _, x := range vals[1:] {
		ex.pushAlt(Decision{'v', x})
	}
	ex.record(Decision{'v', vals[0]})
	ex.addPC(ex.ctx.Eq(t, ex.ctx.BV(vals[0], t.W)))
	return vals[0]
}

// concInt concretises an integer value interpreted with the given signedness
// and returns it as int64.
func (ex *Exec) concInt(v value, w uint8, signed bool, limit int, why string) int64 {
	u := ex.concretize(v, limit, why)
	if signed {
		return sextW(u, w)
	}
	return int64(u)
}

func (ex *Exec) assume(cv value) {
	if b, ok := cv.(bool); ok {
		if !b {
			panic(pathAbort{abortAssume, "assume(false)"})
		}
		return
	}
	t := cv.(*sym.Term)
	if k, ok := ex.ctx.Known[t]; ok {
		if k == ex.ctx.True {
			return
		}
		panic(pathAbort{abortAssume, "assume contradicts path"})
	}
	if ex.replaying() {
		d := ex.nextReplay('a')
		ex.record(d)
		ex.addPC(t)
		return
	}
	r := ex.feasible(t)
	if r == sym.Unknown {
		ex.inconclusive("solver returned unknown on an assumption")
	}
	if r == sym.Unsat {
		panic(pathAbort{abortAssume, "assumption infeasible"})
	}
	ex.record(Decision{'a', 1})
	ex.addPC(t)
}

func (ex *Exec) allVars() []*sym.Term {
	var vs []*sym.Term
	for _, n := range ex.ps.nondets {
		if n.T != nil {
			vs = append(vs, n.T)
		}
	}
	return vs
}

func (ex *Exec) modelInputs(m map[*sym.Term]uint64) ([]uint64, []string) {
	var in []uint64
	var kinds []string
	for _, n := range ex.ps.nondets {
		kinds = append(kinds, n.Kind)
		if n.T == nil {
			in = append(in, n.CV)
			continue
		}
		if k, ok := ex.ctx.Known[n.T]; ok && k.IsConst() {
			in = append(in, k.Val)
			continue
		}
		in = append(in, m[n.T])
	}
	return in, kinds
}

func (ex *Exec) schedChoices() []uint64 {
	var s []uint64
	for _, d := range ex.ps.trace {
		if d.K == 's' {
			s = append(s, d.V)
		}
	}
	return s
}

// assert checks that cv holds on every input of the current path.
func (ex *Exec) assert(cv value, label string) {
	pos := ""
	if ex.cur != nil && ex.cur.fr != nil && ex.cur.fr.caller != nil {
		pos = ex.prog.Fset.Position(ex.cur.fr.caller.curPos).String()
	}
	if b, ok := cv.(bool); ok {
		if b {
			ex.ps.assertsC++
			return
		}
		cv = ex.ctx.False
	}
	t := cv.(*sym.Term)
	if k, ok := ex.ctx.Known[t]; ok {
		t = k
	}
	if t == ex.ctx.True {
		ex.ps.assertsC++
		return
	}
	if ex.replaying() {
		d := ex.nextReplay('A')
		ex.record(d)
		switch d.V {
		case 0, 1:
			ex.addPC(t)
		default:
			panic(pathAbort{abortEndPath, "assertion " + label + " fails on every input of this path"})
		}
		return
	}
	ex.ps.assertsS++
	neg := ex.ctx.Not(t)
	r, m := ex.solver.ModelWith(ex.allVars(), neg)
	if r == sym.Unknown {
		ex.inconclusive("solver returned unknown on assertion " + label)
	}
	if ex.solver2 != nil {
		// second solver re-discharges every assertion query
		r2 := ex.solver2.CheckWith(neg)
		ex.Solver2Queries++
		switch {
		case r2 == sym.Unknown:
			// the second solver gave up within its (short) time limit: the
			// query stays decided by the primary solver, counted as unconfirmed
			ex.Solver2Unknown++
		case r2 != r:
			ex.inconclusive(fmt.Sprintf("solvers disagree on assertion %s: %s says %s, %s says %s", label, ex.solver.Name, r, ex.solver2.Name, r2))
		}
	}
	if r == sym.Unsat {
		ex.record(Decision{'A', 0})
		ex.addPC(t)
		return
	}
	// violation: concrete inputs from the model
	v := Violation{Label: label, Pos: pos}
	v.Inputs, v.Kinds = ex.modelInputs(m)
	v.Sched = ex.schedChoices()
	v.Spawned = len(ex.gs) > 1
	v.Observes = append([]string(nil), ex.ps.observes...)
	// known-finding classification: is there a violating input on this path
	// that no listed known finding covers?
	var listed []*sym.Term
	for _, kc := range ex.ps.knowns {
		if !ex.knownIDs[kc.id] {
			continue
		}
		kt := ex.termOf(kc.cond, 0)
		rr := ex.solver.CheckWith(neg, kt)
		if rr == sym.Sat {
			v.Known = append(v.Known, kc.id)
		}
		listed = append(listed, kt)
	}
	if len(listed) == 0 {
		v.Unlisted = true
	} else {
		cover := ex.ctx.OrAll(listed...)
		rr, m2 := ex.solver.ModelWith(ex.allVars(), neg, ex.ctx.Not(cover))
		switch rr {
		case sym.Sat:
			v.Unlisted = true
			v.Inputs, v.Kinds = ex.modelInputs(m2)
		case sym.Unknown:
			ex.inconclusive("solver returned unknown classifying a violation of " + label)
		}
	}
	// continue with the assertion assumed, if that is possible
	rc := sym.Unsat
	if t != ex.ctx.False {
		rc = ex.feasible(t)
	}
	if rc == sym.Sat {
		ex.record(Decision{'A', 1})
		v.Trace = append([]Decision(nil), ex.ps.trace...)
		ex.ps.viol = append(ex.ps.viol, v)
		ex.addPC(t)
		return
	}
	ex.record(Decision{'A', 2})
	v.Trace = append([]Decision(nil), ex.ps.trace...)
	ex.ps.viol = append(ex.ps.viol, v)
	panic(pathAbort{abortEndPath, "assertion " + label + " fails on every input of this path"})
}

// newNondet creates the next symbolic input.
func (ex *Exec) newNondet(kind string, w uint8) value {
	idx := len(ex.ps.nondets)
	n := &Nondet{Name: fmt.Sprintf("n%d_%s", idx, kind), Kind: kind, W: w}
	ex.ps.nondets = append(ex.ps.nondets, n)
	if ex.ps.pinMode {
		var v uint64
		if idx < len(ex.ps.pinned) {
			v = ex.ps.pinned[idx]
		}
		n.Conc, n.CV = true, v&maskOrBool(w)
		if w == 0 {
			return n.CV != 0
		}
		return n.CV
	}
	n.T = ex.ctx.Var(n.Name, w)
	return n.T
}

func maskOrBool(w uint8) uint64 {
	if w == 0 {
		return 1
	}
	return maskW(w)
}

func (ex *Exec) observe(s string) {
	ex.ps.observes = append(ex.ps.observes, s)
}

func fmtDecisions(ds []Decision) string {
	var sb strings.Builder
	for _, d := range ds {
		fmt.Fprintf(&sb, "%c%d ", d.K, d.V)
	}
	return sb.String()
}
