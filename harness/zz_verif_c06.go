package smtp

import (
	"bufio"
	"bytes"
	"io"
	"strconv"
)

// verif_C06_budget: one dataReader.Read from an arbitrary reader state with an
// arbitrary 64-bit remaining budget. Inductive step for "never more than N
// octets are handed over": the octets stored never exceed the budget, the
// budget decreases by exactly the octets stored, never wraps, and an
// exhausted budget yields ErrDataTooLarge without touching the buffer.
func verif_C06_budget() {
	k := nondetInt(0, 3)
	src := &verifSrc{data: nondetBytesN(k), final: io.EOF}
	st := nondetInt(0, 4)
	n0 := nondetInt64()
	dr := &dataReader{r: bufio.NewReader(src), state: st, limited: true, n: n0}
	bl := nondetInt(1, 3)
	b := make([]byte, bl+1)
	for i := range b {
		b[i] = 0xEE
	}
	n, err := dr.Read(b[:bl])
	verifObserve("budget", k, st, n0, bl, n, dr.n)
	if n0 <= 0 {
		verifReach("C06.exhausted")
		verifAssert(n == 0 && err != nil, "C06.exhausted-budget-delivers-nothing")
		verifAssert(err != io.EOF || dr.state == 5, "C06.exhausted-budget-eof-only-at-marker")
		verifAssert(b[0] == 0xEE, "C06.exhausted-budget-stores-nothing")
		verifAssert(dr.n == n0, "C06.exhausted-budget-unchanged")
		return
	}
	verifReach("C06.within")
	verifAssert(n >= 0 && int64(n) <= n0 && n <= bl, "C06.stored-within-budget")
	verifAssert(dr.n == n0-int64(n), "C06.budget-decreases-by-stored")
	verifAssert(dr.n >= 0, "C06.budget-never-negative")
	verifAssert(b[bl] == 0xEE, "C06.no-write-past-buffer")
	if int64(bl) > n0 {
		verifReach("C06.clamped")
		verifAssert(b[n0] == 0xEE, "C06.no-write-past-budget")
	}
}

// verif_C06_data: whole DATA transactions with limit N around the message
// size. Differential against the same transaction without a limit.
func verif_C06_data() {
	L := verifBound(2, 3)
	msg := nondetBytesN(L)
	stream := append(append([]byte{}, msg...), "\r\n.\r\n"...)
	body, end, ok := refUnstuff(stream)
	// the appended marker is the first one (a message that contains an earlier
	// end marker is a different conversation; C02 covers those)
	assume(ok && end == len(stream))
	m := len(body)
	N := nondetInt(1, L+4)
	lmtp := nondetBool()

	var got []byte
	var rerr error
	be := &vbackend{}
	be.dataFn = func(_ *vsession, r io.Reader) error {
		got, rerr = verifReadAll(r, 2)
		if rerr == io.EOF {
			return nil
		}
		return rerr
	}
	s, _ := verifServer(be)
	s.MaxMessageBytes = int64(N)
	s.LMTP = lmtp
	hello := "EHLO c\r\n"
	if lmtp {
		hello = "LHLO c\r\n"
	}
	in := []byte(hello + "MAIL FROM:<s@v>\r\nRCPT TO:<r@v>\r\nDATA\r\n")
	in = append(in, stream...)
	in = append(in, "RCPT TO:<after@v>\r\n"...)
	vc, _, _ := verifServe(s, in, io.EOF)
	reps, wf := verifParseReplies(vc.out)
	verifAssert(wf && len(reps) == 7, "C06.reply-shape")
	if !(wf && len(reps) == 7) {
		return
	}
	final := reps[5]
	verifObserve("c06data", msg, N, m, lmtp, len(got), final.code, rerr == io.EOF)
	verifAssert(len(got) <= N, "C06.backend-never-reads-more-than-N")
	if m <= N {
		verifReach("C06.fits")
		verifAssert(rerr == io.EOF, "C06.fitting-message-complete")
		verifAssert(bytes.Equal(got, body), "C06.fitting-message-intact")
		verifAssert(final.code == 250, "C06.fitting-message-accepted")
	} else {
		verifReach("C06.toolarge")
		verifAssert(rerr != nil && rerr != io.EOF, "C06.oversize-never-complete")
		verifAssert(final.code == 552, "C06.oversize-gets-552")
	}
	// the transaction is over either way: RCPT without MAIL is refused
	verifAssert(reps[6].code == 502 && be.find("Rcpt", "after@v") < 0, "C06.transaction-discarded")
}

// verif_C06_size: MAIL FROM with SIZE= of 1..3 arbitrary digits against an
// arbitrary limit.
func verif_C06_size() {
	nd := nondetInt(1, 3)
	digits := nondetBytesN(nd)
	val := int64(0)
	for _, dgt := range digits {
		assume(dgt >= '0' && dgt <= '9')
		val = val*10 + int64(dgt-'0')
	}
	N := int64(nondetInt(0, 1200))
	be := &vbackend{}
	s, _ := verifServer(be)
	s.MaxMessageBytes = N
	in := []byte("EHLO c\r\nMAIL FROM:<s@v> SIZE=")
	in = append(in, digits...)
	in = append(in, "\r\n"...)
	vc, _, _ := verifServe(s, in, io.EOF)
	reps, wf := verifParseReplies(vc.out)
	verifAssert(wf && len(reps) == 3, "C06.size-reply-shape")
	if !(wf && len(reps) == 3) {
		return
	}
	mi := be.find("Mail", "s@v")
	verifObserve("c06size", digits, N, reps[2].code, mi >= 0)
	if N > 0 && val > N {
		verifReach("C06.size-over")
		verifAssert(reps[2].code == 552, "C06.declared-oversize-552")
		verifAssert(mi < 0, "C06.declared-oversize-backend-not-consulted")
	} else {
		verifReach("C06.size-ok")
		verifAssert(reps[2].code == 250 && mi >= 0, "C06.declared-size-accepted")
		if mi >= 0 {
			sess := be.trace[mi].sess
			_ = sess
		}
	}
}

// verif_C06_bdat: a chunked transfer of up to three BDAT commands whose declared
// sizes come from a set of small values around the limit and of boundary
// values of the integer types involved (2^31, 2^32, 2^63, 2^64 and their
// neighbours). The backend must never read more than N octets, a chunk that
// takes the declared total over N (or whose size cannot be represented) is
// refused with 5xx, and 250 is given to LAST only if the whole message fits.
func verif_C06_bdat() {
	verifPreemptBound(0)
	N := nondetInt(1, 3)
	sizes := []string{"0", "1", "2", "3", "4", "2147483647", "2147483648", "4294967295", "4294967296",
		"9223372036854775807", "9223372036854775808", "18446744073709551606", "18446744073709551615", "18446744073709551616"}
	small := []int{0, 1, 2, 3, 4, -1, -1, -1, -1, -1, -1, -1, -1, -1}
	K := verifBound(2, 3)
	nch := nondetInt(1, K)
	in := []byte("EHLO c\r\nMAIL FROM:<s@v>\r\nRCPT TO:<r@v>\r\n")
	total := 0
	alive := true // transaction still open according to the reference
	expectRefused := make([]bool, nch)
	sent := 0
	for i := 0; i < nch; i++ {
		k := verifChoice(len(sizes))
		line := "BDAT " + sizes[k]
		if i == nch-1 {
			line += " LAST"
		}
		in = append(in, line+"\r\n"...)
		if small[k] >= 0 {
			in = append(in, nondetBytesN(small[k])...)
		}
		sent++
		if small[k] < 0 {
			// a huge declared size: refused either way, and since the harness
			// does not send that many octets nothing sensible can follow
			expectRefused[i] = true
			alive = false
			nch = i + 1
			break
		}
		if !alive {
			expectRefused[i] = true // no open transaction any more: 5xx
			continue
		}
		if total+small[k] > N {
			expectRefused[i] = true
			alive = false
			continue
		}
		total += small[k]
	}
	var got []byte
	var rerr error
	be := &vbackend{}
	be.dataFn = func(_ *vsession, r io.Reader) error {
		got, rerr = verifReadAll(r, 3)
		if rerr == io.EOF {
			return nil
		}
		return rerr
	}
	s, _ := verifServer(be)
	s.MaxMessageBytes = int64(N)
	vc, _, _ := verifServe(s, in, io.EOF)
	reps, wf := verifParseReplies(vc.out)
	verifObserve("c06b", N, nch, sent, total, alive, len(got), wf, len(reps))
	verifAssert(len(got) <= N, "C06.bdat-backend-never-reads-more-than-N")
	verifAssert(wf && len(reps) >= 4+sent, "C06.bdat-reply-per-chunk")
	if !wf || len(reps) < 4+sent {
		return
	}
	for i := 0; i < sent; i++ {
		r := reps[4+i]
		if expectRefused[i] {
			verifReach("C06.bdat-refused")
			verifAssert(r.code/100 == 5, "C06.bdat-over-limit-chunk-refused")
		} else {
			verifReach("C06.bdat-accepted")
			verifAssert(r.code == 250, "C06.bdat-fitting-chunk-accepted")
		}
	}
	if alive && sent == nch {
		verifAssert(rerr == io.EOF && len(got) == total, "C06.bdat-fitting-message-complete")
	} else {
		verifAssert(rerr != io.EOF || len(got) == 0 && rerr == nil, "C06.bdat-oversize-never-complete")
	}
}

// verif_C06_bdat_step: the BDAT budget arithmetic as ONE inductive step. A
// chunked transfer is opened by a first real chunk; then the connection's
// running total and the server's limit are replaced by ARBITRARY 64-bit values
// r and N satisfying the invariant 0 <= r <= N (N <= 2^62: limits near the
// top of int64 are outside the claim), and one more BDAT of 0..3 octets is
// processed. It must be accepted iff r + size <= N; after acceptance the
// total is exactly r + size (so the invariant holds again, which extends the
// claim to any number of chunks); after refusal the transaction is gone.
func verif_C06_bdat_step() {
	verifPreemptBound(0)
	size := nondetInt(0, 3)
	last := nondetBool()
	r := nondetInt64()
	N := nondetInt64()
	assume(N >= 1 && N <= 1<<62 && r >= 0 && r <= N)
	be := &vbackend{}
	var rerr error
	ngot := 0
	be.dataFn = func(_ *vsession, rd io.Reader) error {
		b, e := verifReadAll(rd, 4)
		ngot, rerr = len(b), e
		if e == io.EOF {
			return nil
		}
		return e
	}
	s, _ := verifServer(be)
	vc := &vconn{in: []byte("EHLO c\r\nMAIL FROM:<s@v>\r\nRCPT TO:<r@v>\r\nBDAT 1\r\nx"), final: io.EOF}
	var conn *Conn
	stage := 0
	vc.script = func(c *vconn) bool {
		if stage > 0 {
			return false
		}
		stage = 1
		// the first chunk has been processed: replace the budget state
		conn.bytesReceived = r
		s.MaxMessageBytes = N
		line := "BDAT " + strconv.Itoa(size)
		if last {
			line += " LAST"
		}
		c.in = append(c.in, line+"\r\n"...)
		c.in = append(c.in, nondetBytesN(size)...)
		c.in = append(c.in, "NOOP\r\n"...)
		return true
	}
	conn = newConn(vc, s)
	s.handleConn(conn)
	verifSettle()
	code := verifNthReplyCode(vc.out, 5)
	fits := r+int64(size) <= N // no wrap: r <= N <= 2^62 and size <= 3
	verifObserve("c06bs", size, last, r, N, code, fits)
	if fits {
		verifReach("C06.step-fits")
		verifAssert(code == 250, "C06.step-fitting-chunk-accepted")
		if !last {
			// (the disconnect after NOOP has reset the transaction; the total
			// is observed through what the backend was handed)
			verifAssert(ngot == 1+size, "C06.step-backend-got-the-chunk")
		} else {
			verifAssert(rerr == io.EOF && ngot == 1+size, "C06.step-last-chunk-completes")
		}
	} else {
		verifReach("C06.step-over")
		verifAssert(code == 552, "C06.step-over-limit-chunk-refused")
		verifAssert(rerr != io.EOF && ngot <= 1, "C06.step-over-limit-never-complete")
	}
	verifAssert(verifNthReplyCode(vc.out, 6) == 250, "C06.step-command-mode-after")
}

// verif_C06_data2: TWO DATA transactions on one connection under the same
// limit: the limit applies to every transaction, not only to the first one.
func verif_C06_data2() {
	N := nondetInt(1, 6)
	lmtp := nondetBool()
	msg1 := nondetBytesN(1)
	msg2 := nondetBytesN(2)
	for _, ch := range append(append([]byte{}, msg1...), msg2...) {
		assume(ch != '.' && ch != '\r' && ch != '\n')
	}
	m1, m2 := 3, 4
	var gots [][]byte
	var errs []error
	be := &vbackend{}
	be.dataFn = func(_ *vsession, r io.Reader) error {
		b, e := verifReadAll(r, 3)
		gots = append(gots, b)
		errs = append(errs, e)
		if e == io.EOF {
			return nil
		}
		return e
	}
	s, _ := verifServer(be)
	s.MaxMessageBytes = int64(N)
	s.LMTP = lmtp
	hello := "EHLO c\r\n"
	if lmtp {
		hello = "LHLO c\r\n"
	}
	in := []byte(hello + "MAIL FROM:<s@v>\r\nRCPT TO:<r@v>\r\nDATA\r\n")
	in = append(in, msg1...)
	in = append(in, "\r\n.\r\nMAIL FROM:<s2@v>\r\nRCPT TO:<r2@v>\r\nDATA\r\n"...)
	in = append(in, msg2...)
	in = append(in, "\r\n.\r\nNOOP\r\n"...)
	vc, _, _ := verifServe(s, in, io.EOF)
	reps, wf := verifParseReplies(vc.out)
	verifObserve("c06d2", N, lmtp, wf, len(reps), len(gots))
	verifAssert(wf && len(reps) == 11 && len(gots) == 2, "C06.two-transactions-shape")
	if !wf || len(reps) != 11 || len(gots) != 2 {
		return
	}
	check := func(i, m int, final vreply, tag string) {
		verifAssert(len(gots[i]) <= N, "C06.never-more-than-N-"+tag)
		if m <= N {
			verifAssert(errs[i] == io.EOF && final.code == 250 && len(gots[i]) == m, "C06.fitting-message-accepted-"+tag)
		} else {
			verifAssert(errs[i] != io.EOF && final.code == 552, "C06.oversize-refused-"+tag)
		}
	}
	check(0, m1, reps[5], "first")
	check(1, m2, reps[9], "second")
	verifAssert(reps[10].code == 250, "C06.two-transactions-command-mode")
	verifReach("C06.data2-end")
}
func verif_C06_two_messages() { verifTwoMessages("C06") }
