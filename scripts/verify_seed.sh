#!/bin/bash
# usage: verify_seed.sh <worktree> <outdir>
# Confirms in the scratch worktree: patch applies to a clean checkout, existing
# tests pass with it, the demo fails with it and passes without it.
set -u
export GOFLAGS=-mod=mod GOPROXY=off GOSUMDB=off GOTOOLCHAIN=local
WT=$1; OUT=$2
cd "$WT" || exit 2
git stash -q -u 2>/dev/null
git checkout -q -- . 2>/dev/null
git clean -fdq
echo "== clean tree: demo must pass"
cp "$OUT/demo_test.go" ./zz_demo_test.go
go test -vet=off -count=1 -run 'Demo|demo|Seed|seed|C[0-9][0-9]' . 2>&1 | tail -3
CLEAN=$?
echo "== apply patch"
git apply "$OUT/patch.diff" || { echo "PATCH DOES NOT APPLY"; exit 1; }
go build ./... || { echo "BUILD FAILS"; exit 1; }
echo "== patched: existing tests (demo removed)"
rm -f zz_demo_test.go
go test -vet=off -count=1 ./... 2>&1 | tail -3
echo "== patched: demo must fail"
cp "$OUT/demo_test.go" ./zz_demo_test.go
go test -vet=off -count=1 . 2>&1 | grep -E "^(--- FAIL|FAIL|ok)" | head -5
rm -f zz_demo_test.go
git checkout -q -- .
