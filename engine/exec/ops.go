package exec

import (
	"fmt"
	"go/constant"
	"go/token"
	"go/types"
	"math"
	"unicode/utf8"

	"golang.org/x/tools/go/ssa"

	"verif/gosym/sym"
)

// targetPanic is a panic of the interpreted program.
type targetPanic struct {
	v value
}

func (ex *Exec) rtPanic(msg string) {
	panic(targetPanic{iface{ex.prog.runtimeErrorString, msg}})
}

func constValue(c *ssa.Const) value {
	if c.Value == nil {
		return zero(c.Type())
	}
	t, ok := c.Type().Underlying().(*types.Basic)
	if !ok {
		// constant of type-parameter or similar
		panic(fmt.Sprintf("constValue: unexpected type %s", c.Type()))
	}
	k := basicKind(t)
	switch k.cls {
	case clsBool:
		return constant.BoolVal(c.Value)
	case clsInt:
		if k.signed {
			return uint64(c.Int64()) & maskW(k.w)
		}
		return c.Uint64() & maskW(k.w)
	case clsFloat:
		f := c.Float64()
		if k.w == 32 {
			return float64(float32(f))
		}
		return f
	case clsString:
		if c.Value.Kind() == constant.String {
			return constant.StringVal(c.Value)
		}
		return string(rune(c.Int64()))
	}
	if t.Info()&types.IsComplex != 0 {
		return c.Complex128()
	}
	panic(fmt.Sprintf("constValue: unexpected type %s", c.Type()))
}

var binSymOps = map[token.Token]sym.Op{
	token.ADD: sym.OpAdd, token.SUB: sym.OpSub, token.MUL: sym.OpMul,
	token.AND: sym.OpBAnd, token.OR: sym.OpBOr, token.XOR: sym.OpBXor,
}

func (ex *Exec) binop(op token.Token, t types.Type, ty types.Type, x, y value) value {
	k := basicKind(t)
	switch k.cls {
	case clsInt:
		return ex.intBinop(op, k, ty, x, y)
	case clsBool:
		switch op {
		case token.EQL:
			return ex.eqv(t, x, y)
		case token.NEQ:
			return ex.notv(ex.eqv(t, x, y))
		case token.AND:
			return ex.andv(x, y)
		case token.OR:
			return ex.orv(x, y)
		}
	case clsString:
		switch op {
		case token.ADD:
			return strConcat(ex, x, y)
		case token.EQL:
			return ex.eqv(t, x, y)
		case token.NEQ:
			return ex.notv(ex.eqv(t, x, y))
		case token.LSS, token.LEQ, token.GTR, token.GEQ:
			xs, ok1 := x.(string)
			ys, ok2 := y.(string)
			if !ok1 || !ok2 {
				ex.inconclusive("ordered comparison of symbolic strings")
			}
			switch op {
			case token.LSS:
				return xs < ys
			case token.LEQ:
				return xs <= ys
			case token.GTR:
				return xs > ys
			default:
				return xs >= ys
			}
		}
	case clsFloat:
		xf, yf := x.(float64), y.(float64)
		var r float64
		switch op {
		case token.ADD:
			r = xf + yf
		case token.SUB:
			r = xf - yf
		case token.MUL:
			r = xf * yf
		case token.QUO:
			r = xf / yf
		case token.EQL:
			return xf == yf
		case token.NEQ:
			return xf != yf
		case token.LSS:
			return xf < yf
		case token.LEQ:
			return xf <= yf
		case token.GTR:
			return xf > yf
		case token.GEQ:
			return xf >= yf
		default:
			panic("float binop " + op.String())
		}
		if k.w == 32 {
			r = float64(float32(r))
		}
		return r
	default:
		switch op {
		case token.EQL:
			return ex.eqnil(t, x, y)
		case token.NEQ:
			return ex.notv(ex.eqnil(t, x, y))
		}
	}
	panic(fmt.Sprintf("binop: unsupported %s on %s (%T, %T)", op, t, x, y))
}

// eqnil handles comparisons that may involve nil slices/maps/funcs.
func (ex *Exec) eqnil(t types.Type, x, y value) value {
	switch t.Underlying().(type) {
	case *types.Slice:
		xs, _ := x.([]value)
		ys, _ := y.([]value)
		return xs == nil && ys == nil
	case *types.Map:
		xm, _ := x.(*vmap)
		ym, _ := y.(*vmap)
		return xm == ym
	case *types.Signature:
		return isNilFunc(x) && isNilFunc(y)
	}
	return ex.eqv(t, x, y)
}

func isNilFunc(v value) bool {
	switch f := v.(type) {
	case *ssa.Function:
		return f == nil
	case *closure:
		return f == nil
	case *ssa.Builtin:
		return f == nil
	}
	return v == nil
}

func (ex *Exec) intBinop(op token.Token, k kind, ty types.Type, x, y value) value {
	w, m := k.w, maskW(k.w)
	xu, xc := x.(uint64)
	yu, yc := y.(uint64)
	if op == token.SHL || op == token.SHR {
		return ex.shift(op, k, ty, x, y)
	}
	if xc && yc {
		switch op {
		case token.ADD:
			return (xu + yu) & m
		case token.SUB:
			return (xu - yu) & m
		case token.MUL:
			return (xu * yu) & m
		case token.QUO, token.REM:
			if yu == 0 {
				ex.rtPanic("integer divide by zero")
			}
			if k.signed {
				sx, sy := sextW(xu, w), sextW(yu, w)
				if sy == -1 {
					if op == token.QUO {
						return uint64(-sx) & m
					}
					return uint64(0)
				}
				if op == token.QUO {
					return uint64(sx/sy) & m
				}
				return uint64(sx%sy) & m
			}
			if op == token.QUO {
				return xu / yu
			}
			return xu % yu
		case token.AND:
			return xu & yu
		case token.OR:
			return xu | yu
		case token.XOR:
			return xu ^ yu
		case token.AND_NOT:
			return xu &^ yu
		case token.EQL:
			return xu == yu
		case token.NEQ:
			return xu != yu
		case token.LSS:
			if k.signed {
				return sextW(xu, w) < sextW(yu, w)
			}
			return xu < yu
		case token.LEQ:
			if k.signed {
				return sextW(xu, w) <= sextW(yu, w)
			}
			return xu <= yu
		case token.GTR:
			if k.signed {
				return sextW(xu, w) > sextW(yu, w)
			}
			return xu > yu
		case token.GEQ:
			if k.signed {
				return sextW(xu, w) >= sextW(yu, w)
			}
			return xu >= yu
		}
		panic("intBinop: " + op.String())
	}
	c := ex.ctx
	xt, yt := ex.termOf(x, w), ex.termOf(y, w)
	switch op {
	case token.ADD, token.SUB, token.MUL, token.AND, token.OR, token.XOR:
		return norm(c.Bin(binSymOps[op], xt, yt))
	case token.AND_NOT:
		return norm(c.Bin(sym.OpBAnd, xt, c.BNot(yt)))
	case token.QUO, token.REM:
		if ex.branch(norm(c.Eq(yt, c.BV(0, w)))) {
			ex.rtPanic("integer divide by zero")
		}
		var o sym.Op
		switch {
		case op == token.QUO && k.signed:
			o = sym.OpSDiv
		case op == token.QUO:
			o = sym.OpUDiv
		case k.signed:
			o = sym.OpSRem
		default:
			o = sym.OpURem
		}
		return norm(c.Bin(o, xt, yt))
	case token.EQL:
		return norm(c.Eq(xt, yt))
	case token.NEQ:
		return norm(c.Not(c.Eq(xt, yt)))
	case token.LSS:
		if k.signed {
			return norm(c.Cmp(sym.OpSlt, xt, yt))
		}
		return norm(c.Cmp(sym.OpUlt, xt, yt))
	case token.LEQ:
		if k.signed {
			return norm(c.Cmp(sym.OpSle, xt, yt))
		}
		return norm(c.Cmp(sym.OpUle, xt, yt))
	case token.GTR:
		if k.signed {
			return norm(c.Cmp(sym.OpSlt, yt, xt))
		}
		return norm(c.Cmp(sym.OpUlt, yt, xt))
	case token.GEQ:
		if k.signed {
			return norm(c.Cmp(sym.OpSle, yt, xt))
		}
		return norm(c.Cmp(sym.OpUle, yt, xt))
	}
	panic("intBinop(sym): " + op.String())
}

func (ex *Exec) shift(op token.Token, k kind, ty types.Type, x, y value) value {
	w := k.w
	yk := basicKind(ty)
	// concretise / check the count
	if yu, ok := y.(uint64); ok {
		if yk.signed && sextW(yu, yk.w) < 0 {
			ex.rtPanic("negative shift amount")
		}
		if xu, ok := x.(uint64); ok {
			if op == token.SHL {
				if yu >= uint64(w) {
					return uint64(0)
				}
				return (xu << yu) & maskW(w)
			}
			if k.signed {
				if yu >= uint64(w) {
					yu = uint64(w) - 1
				}
				return uint64(sextW(xu, w)>>yu) & maskW(w)
			}
			if yu >= uint64(w) {
				return uint64(0)
			}
			return xu >> yu
		}
		c := ex.ctx
		xt := x.(*sym.Term)
		if yu >= uint64(w) {
			if op == token.SHR && k.signed {
				yu = uint64(w) - 1
			} else {
				return uint64(0)
			}
		}
		cnt := c.BV(yu, w)
		switch {
		case op == token.SHL:
			return norm(c.Bin(sym.OpShl, xt, cnt))
		case k.signed:
			return norm(c.Bin(sym.OpAShr, xt, cnt))
		default:
			return norm(c.Bin(sym.OpLShr, xt, cnt))
		}
	}
	// symbolic count
	c := ex.ctx
	yt := y.(*sym.Term)
	if yk.signed {
		if ex.branch(norm(c.Cmp(sym.OpSlt, yt, c.BV(0, yk.w)))) {
			ex.rtPanic("negative shift amount")
		}
	}
	xt := ex.termOf(x, w)
	// bring the count to width w with saturation
	var cnt *sym.Term
	if yk.w <= w {
		cnt = c.Zext(yt, w)
	} else {
		big := c.Cmp(sym.OpUle, c.BV(uint64(w), yk.w), yt)
		cnt = c.Ite(big, c.BV(uint64(w), w), c.Extract(yt, w-1, 0))
	}
	switch {
	case op == token.SHL:
		return norm(c.Bin(sym.OpShl, xt, cnt))
	case k.signed:
		return norm(c.Bin(sym.OpAShr, xt, cnt))
	default:
		return norm(c.Bin(sym.OpLShr, xt, cnt))
	}
}

func (ex *Exec) unop(instr *ssa.UnOp, x value) value {
	switch instr.Op {
	case token.MUL: // load
		if se, ok := x.(*symElem); ok {
			return ex.indexVal(se.arr, se.idx, se.it, se.et)
		}
		p := x.(*value)
		if p == nil {
			ex.rtPanic("invalid memory address or nil pointer dereference")
		}
		ex.hbRead(p)
		return load(instr.Type(), p)
	case token.NOT:
		return ex.notv(x)
	case token.SUB:
		k := basicKind(instr.Type())
		switch x := x.(type) {
		case uint64:
			return (-x) & maskW(k.w)
		case *sym.Term:
			return norm(ex.ctx.Neg(x))
		case float64:
			return -x
		}
	case token.XOR:
		k := basicKind(instr.Type())
		switch x := x.(type) {
		case uint64:
			return (^x) & maskW(k.w)
		case *sym.Term:
			return norm(ex.ctx.BNot(x))
		}
	case token.ARROW:
		v, ok := ex.chanRecv(x.(*vchan), instr.X.Type().Underlying().(*types.Chan).Elem())
		if instr.CommaOk {
			return tuple{v, ok}
		}
		return v
	}
	panic(fmt.Sprintf("unop: unsupported %s on %T", instr.Op, x))
}

// conv implements ssa.Convert.
func (ex *Exec) conv(tDst, tSrc types.Type, x value) value {
	ud, us := tDst.Underlying(), tSrc.Underlying()
	switch us := us.(type) {
	case *types.Pointer:
		return x // *T <-> unsafe.Pointer
	case *types.Slice:
		// []byte / []rune -> string
		sl := x.([]value)
		if db, ok := ud.(*types.Basic); ok && db.Info()&types.IsString != 0 {
			ek := basicKind(us.Elem())
			if ek.w == 8 {
				return mkStr(sl)
			}
			// []rune -> string
			var out []value
			for _, r := range sl {
				out = append(out, ex.strOctets(ex.runeToString(r))...)
			}
			return mkStr(out)
		}
		return x
	case *types.Basic:
		ks := basicKind(us)
		if us.Kind() == types.UnsafePointer {
			return x
		}
		switch ud := ud.(type) {
		case *types.Pointer:
			return x
		case *types.Slice:
			// string -> []byte / []rune
			ek := basicKind(ud.Elem())
			if ek.w == 8 {
				o := ex.strOctets(x)
				out := make([]value, len(o))
				copy(out, o)
				return out
			}
			var out []value
			it := &stringIter{s: ex.strOctets(x)}
			for {
				t := it.next(ex)
				if t[0] == false {
					break
				}
				out = append(out, t[2])
			}
			if out == nil {
				out = []value{}
			}
			return out
		case *types.Basic:
			kd := basicKind(ud)
			if ud.Kind() == types.UnsafePointer {
				return x
			}
			switch {
			case ks.cls == clsInt && kd.cls == clsInt:
				return ex.convInt(ks, kd, x)
			case ks.cls == clsInt && kd.cls == clsString:
				return ex.runeToStringK(ks, x)
			case ks.cls == clsString && kd.cls == clsString:
				return x
			case ks.cls == clsInt && kd.cls == clsFloat:
				u, ok := x.(uint64)
				if !ok {
					ex.inconclusive("symbolic integer converted to float")
				}
				var f float64
				if ks.signed {
					f = float64(sextW(u, ks.w))
				} else {
					f = float64(u)
				}
				if kd.w == 32 {
					f = float64(float32(f))
				}
				return f
			case ks.cls == clsFloat && kd.cls == clsInt:
				f := x.(float64)
				if kd.signed {
					return uint64(int64(f)) & maskW(kd.w)
				}
				return uint64(f) & maskW(kd.w)
			case ks.cls == clsFloat && kd.cls == clsFloat:
				f := x.(float64)
				if kd.w == 32 {
					return float64(float32(f))
				}
				return f
			case ks.cls == clsBool && kd.cls == clsBool:
				return x
			}
		}
	}
	panic(fmt.Sprintf("conv: unsupported %s -> %s", tSrc, tDst))
}

func (ex *Exec) convInt(ks, kd kind, x value) value {
	switch x := x.(type) {
	case uint64:
		if ks.signed {
			return uint64(sextW(x, ks.w)) & maskW(kd.w)
		}
		return x & maskW(kd.w)
	case *sym.Term:
		if kd.w <= ks.w {
			return norm(ex.ctx.Extract(x, kd.w-1, 0))
		}
		if ks.signed {
			return norm(ex.ctx.Sext(x, kd.w))
		}
		return norm(ex.ctx.Zext(x, kd.w))
	}
	panic(fmt.Sprintf("convInt: %T", x))
}

func (ex *Exec) runeToStringK(ks kind, x value) value {
	// string(intvalue): the value is interpreted as a rune
	r := ex.convInt(ks, kind{32, true, clsInt}, x)
	if ks.w > 32 {
		// out-of-range wide values become U+FFFD; detect concretely / by branch
		if u, ok := x.(uint64); ok {
			var sv int64
			if ks.signed {
				sv = sextW(u, ks.w)
			} else {
				sv = int64(u)
				if u > math.MaxInt64 {
					sv = -1
				}
			}
			if sv < 0 || sv > 0x10FFFF {
				return "�"
			}
		} else {
			c := ex.ctx
			xt := x.(*sym.Term)
			inRange := c.Cmp(sym.OpUle, xt, c.BV(0x10FFFF, ks.w))
			if !ex.branch(norm(inRange)) {
				return "�"
			}
		}
	}
	return ex.runeToString(r)
}

// runeToString encodes a rune value (32-bit) as UTF-8, forking on the
// encoding length when the rune is symbolic.
func (ex *Exec) runeToString(r value) value {
	if u, ok := r.(uint64); ok {
		return string(rune(int32(uint32(u))))
	}
	c := ex.ctx
	t := r.(*sym.Term)
	bv := func(v uint64) *sym.Term { return c.BV(v, 32) }
	ule := func(a *sym.Term, k uint64) value { return norm(c.Cmp(sym.OpUle, a, bv(k))) }
	b8 := func(x *sym.Term) value { return norm(c.Extract(x, 7, 0)) }
	shr := func(x *sym.Term, n uint64) *sym.Term { return c.Bin(sym.OpLShr, x, bv(n)) }
	and := func(x *sym.Term, k uint64) *sym.Term { return c.Bin(sym.OpBAnd, x, bv(k)) }
	or := func(x *sym.Term, k uint64) *sym.Term { return c.Bin(sym.OpBOr, x, bv(k)) }
	if ex.branch(ule(t, 0x7F)) {
		return mkStr([]value{b8(t)})
	}
	if ex.branch(ule(t, 0x7FF)) {
		return mkStr([]value{b8(or(shr(t, 6), 0xC0)), b8(or(and(t, 0x3F), 0x80))})
	}
	// invalid: > 0x10FFFF (incl. negative) or surrogate
	if !ex.branch(ule(t, 0x10FFFF)) {
		return "�"
	}
	surr := ex.andv(norm(c.Cmp(sym.OpUle, bv(0xD800), t)), ule(t, 0xDFFF))
	if ex.branch(surr) {
		return "�"
	}
	if ex.branch(ule(t, 0xFFFF)) {
		return mkStr([]value{b8(or(shr(t, 12), 0xE0)), b8(or(and(shr(t, 6), 0x3F), 0x80)), b8(or(and(t, 0x3F), 0x80))})
	}
	return mkStr([]value{b8(or(shr(t, 18), 0xF0)), b8(or(and(shr(t, 12), 0x3F), 0x80)), b8(or(and(shr(t, 6), 0x3F), 0x80)), b8(or(and(t, 0x3F), 0x80))})
}

// decodeRune decodes one UTF-8 sequence at s[i:], exactly like
// utf8.DecodeRuneInString (invalid => U+FFFD, width 1), forking on the lead
// octet class and on continuation validity when octets are symbolic.
func (ex *Exec) decodeRune(s []value, i int) (value, int) {
	n := len(s) - i
	if n <= 0 {
		return uint64(utf8.RuneError), 0
	}
	// all-concrete fast path
	allc := true
	lim := n
	if lim > 4 {
		lim = 4
	}
	var buf [4]byte
	for j := 0; j < lim; j++ {
		u, ok := s[i+j].(uint64)
		if !ok {
			allc = false
			break
		}
		buf[j] = byte(u)
	}
	if allc {
		r, w := utf8.DecodeRune(buf[:lim])
		return uint64(uint32(r)), w
	}
	if u, ok := s[i].(uint64); ok && u < 0x80 {
		return u, 1
	}
	c := ex.ctx
	b0 := ex.termOf(s[i], 8)
	k8 := func(v uint64) *sym.Term { return c.BV(v, 8) }
	inr := func(b *sym.Term, lo, hi uint64) value {
		return ex.andv(norm(c.Cmp(sym.OpUle, k8(lo), b)), norm(c.Cmp(sym.OpUle, b, k8(hi))))
	}
	z := func(b *sym.Term) *sym.Term { return c.Zext(b, 32) }
	bv := func(v uint64) *sym.Term { return c.BV(v, 32) }
	shl := func(x *sym.Term, n uint64) *sym.Term { return c.Bin(sym.OpShl, x, bv(n)) }
	and := func(x *sym.Term, k uint64) *sym.Term { return c.Bin(sym.OpBAnd, x, bv(k)) }
	or := func(x, y *sym.Term) *sym.Term { return c.Bin(sym.OpBOr, x, y) }
	rerr := uint64(utf8.RuneError)
	if ex.branch(norm(c.Cmp(sym.OpUlt, b0, k8(0x80)))) {
		return norm(z(b0)), 1
	}
	// 2-byte: C2..DF
	if ex.branch(inr(b0, 0xC2, 0xDF)) {
		if n < 2 {
			return rerr, 1
		}
		b1 := ex.termOf(s[i+1], 8)
		if !ex.branch(inr(b1, 0x80, 0xBF)) {
			return rerr, 1
		}
		return norm(or(shl(and(z(b0), 0x1F), 6), and(z(b1), 0x3F))), 2
	}
	// 3-byte: E0..EF with second-octet ranges
	if ex.branch(inr(b0, 0xE0, 0xEF)) {
		if n < 3 {
			return rerr, 1
		}
		b1 := ex.termOf(s[i+1], 8)
		b2 := ex.termOf(s[i+2], 8)
		lo, hi := uint64(0x80), uint64(0xBF)
		var ok1 value
		if ex.branch(norm(c.Eq(b0, k8(0xE0)))) {
			lo = 0xA0
			ok1 = inr(b1, lo, hi)
		} else if ex.branch(norm(c.Eq(b0, k8(0xED)))) {
			hi = 0x9F
			ok1 = inr(b1, lo, hi)
		} else {
			ok1 = inr(b1, lo, hi)
		}
		if !ex.branch(ok1) {
			return rerr, 1
		}
		if !ex.branch(inr(b2, 0x80, 0xBF)) {
			return rerr, 1
		}
		return norm(or(or(shl(and(z(b0), 0x0F), 12), shl(and(z(b1), 0x3F), 6)), and(z(b2), 0x3F))), 3
	}
	// 4-byte: F0..F4
	if ex.branch(inr(b0, 0xF0, 0xF4)) {
		if n < 4 {
			return rerr, 1
		}
		b1 := ex.termOf(s[i+1], 8)
		b2 := ex.termOf(s[i+2], 8)
		b3 := ex.termOf(s[i+3], 8)
		lo, hi := uint64(0x80), uint64(0xBF)
		if ex.branch(norm(c.Eq(b0, k8(0xF0)))) {
			lo = 0x90
		} else if ex.branch(norm(c.Eq(b0, k8(0xF4)))) {
			hi = 0x8F
		}
		if !ex.branch(inr(b1, lo, hi)) {
			return rerr, 1
		}
		if !ex.branch(inr(b2, 0x80, 0xBF)) {
			return rerr, 1
		}
		if !ex.branch(inr(b3, 0x80, 0xBF)) {
			return rerr, 1
		}
		return norm(or(or(or(shl(and(z(b0), 0x07), 18), shl(and(z(b1), 0x3F), 12)), shl(and(z(b2), 0x3F), 6)), and(z(b3), 0x3F))), 4
	}
	return rerr, 1
}

type stringIter struct {
	s []value
	i int
}

func (it *stringIter) next(ex *Exec) tuple {
	if it.i >= len(it.s) {
		return tuple{false, uint64(0), uint64(0)}
	}
	r, w := ex.decodeRune(it.s, it.i)
	idx := it.i
	it.i += w
	return tuple{true, uint64(idx), r}
}
