package smtp

import (
	"io"
	"time"
)

// verifValidScalar: r is a Unicode scalar value.
func verifValidScalar(r rune) bool {
	return r >= 0 && r <= 0x10FFFF && !(r >= 0xD800 && r <= 0xDFFF)
}

func verifIsXtextSafe(s string) bool {
	for i := 0; i < len(s); i++ {
		if s[i] < '!' || s[i] > '~' || s[i] == '=' {
			return false
		}
	}
	return true
}

// verif_C14_xtext: xtext (RFC 3461) encode/decode are exact inverses on all of
// 7-bit ASCII, and the encoded form is wire-safe (printable, no space, no '=').
func verif_C14_xtext() {
	n := verifBound(2, 3)
	s := nondetString(n)
	for i := 0; i < len(s); i++ {
		assume(s[i] < 0x80)
	}
	enc := encodeXtext(s)
	dec, err := decodeXtext(enc)
	verifObserve("xtext", s, enc, dec, err == nil)
	verifAssert(verifIsXtextSafe(enc), "C14.xtext-wire-safe")
	verifAssert(err == nil, "C14.xtext-decodes")
	verifAssert(dec == s, "C14.xtext-roundtrip")
	verifReach("C14.xtext-end")
}

// verif_C14_rune: one arbitrary Unicode scalar in a fixed context through each
// of the three address codecs and the server's decoder.
func verif_C14_rune() {
	r := nondetRune()
	assume(verifValidScalar(r))
	s := "a" + string(r) + "+"
	which := verifChoice(3)
	if which != 2 {
		// domain of the UTF-8 address forms per the statement: printable ASCII
		// or non-ASCII UTF-8 text (C0 controls and DEL are outside)
		assume(r >= 0x20 && r != 0x7f)
	}
	var enc string
	switch which {
	case 0:
		enc = encodeUTF8AddrXtext(s)
		verifAssert(verifIsXtextSafe(enc), "C14.utf8-addr-xtext-wire-safe")
	case 1:
		enc = encodeUTF8AddrUnitext(s)
		for i := 0; i < len(enc); i++ {
			verifAssert(enc[i] > ' ' && enc[i] != '=' && enc[i] != 0x7f, "C14.utf8-addr-unitext-wire-safe")
		}
	case 2:
		assume(r < 0x80)
		enc = encodeXtext(s)
		dec, err := decodeXtext(enc)
		verifObserve("rune-xtext", int(r), enc, dec, err == nil)
		verifAssert(err == nil && dec == s, "C14.xtext-roundtrip-scalar")
		verifReach("C14.rune-xtext")
		return
	}
	dec, err := decodeUTF8AddrXtext(enc)
	verifObserve("rune", int(r), which, enc, dec, err == nil)
	verifAssert(err == nil, "C14.utf8-addr-decodes")
	verifAssert(dec == s, "C14.utf8-addr-roundtrip")
	verifReach("C14.rune-end")
}

// verif_C14_trip: the whole trip. Client.Mail / Client.Rcpt build their command
// line from an option struct whose fields are chosen by the harness (subset of
// fields symbolic; one string-valued option carries an arbitrary Unicode
// scalar in a printable context); that very line is served by a go-smtp server
// with the corresponding extensions enabled; the options the backend receives
// must equal the ones given to the client.
func verif_C14_trip() {
	r := nondetRune()
	assume(verifValidScalar(r) && r >= 0x20 && r != 0x7f)
	utf8srv := nondetBool()
	isMail := nondetBool()
	ext := map[string]string{"8BITMIME": "", "SIZE": "", "DSN": "", "AUTH": "", "REQUIRETLS": "", "RRVS": ""}
	if utf8srv {
		ext["SMTPUTF8"] = ""
	}
	be := &vbackend{}
	srv, _ := verifServer(be)
	srv.EnableDSN, srv.EnableREQUIRETLS, srv.EnableSMTPUTF8, srv.EnableRRVS = true, true, utf8srv, true
	var line []byte
	var cerr error
	var mo MailOptions
	var ro RcptOptions
	if isMail {
		if nondetBool() {
			mo.Size = int64(nondetInt(1, 999))
		}
		mo.RequireTLS = nondetBool()
		mo.UTF8 = utf8srv && nondetBool()
		switch verifChoice(3) {
		case 1:
			mo.Return = DSNReturnFull
		case 2:
			mo.Return = DSNReturnHeaders
		}
		switch verifChoice(3) {
		case 1:
			// ENVID: printable ASCII per the statement
			assume(r <= 0x7e)
			mo.EnvelopeID = "e" + string(r) + "="
		case 2:
			// AUTH: a mailbox whose local part carries the scalar; 7-bit ASCII domain of xtext
			assume(r <= 0x7e && verifIsAtext(byte(r)))
			a := "u" + string(r) + "@h"
			mo.Auth = &a
		}
		if nondetBool() && mo.Auth == nil {
			e := ""
			mo.Auth = &e
		}
		c, vc := verifClient("250 2.0.0 ok\r\n", ext)
		cerr = c.Mail("s@v", &mo)
		line = vc.out
	} else {
		switch verifChoice(4) {
		case 1:
			ro.Notify = []DSNNotify{DSNNotifyNever}
		case 2:
			ro.Notify = []DSNNotify{DSNNotifySuccess, DSNNotifyFailure}
		case 3:
			ro.Notify = []DSNNotify{DSNNotifyDelayed, DSNNotifyFailure, DSNNotifySuccess}
		}
		switch verifChoice(5) {
		case 1:
			assume(r <= 0x7e)
			ro.OriginalRecipientType = DSNAddressTypeRFC822
			ro.OriginalRecipient = "o" + string(r) + "+@h"
		case 2:
			ro.OriginalRecipientType = DSNAddressTypeUTF8
			ro.OriginalRecipient = "o" + string(r) + "\\@h"
		case 3, 4:
			// a '+' followed by two ARBITRARY printable octets (what would be
			// a hexchar if the value were decoded once too often)
			d1, d2 := nondetByte(), nondetByte()
			assume(d1 > ' ' && d1 < 0x7f && d2 > ' ' && d2 < 0x7f)
			ro.OriginalRecipientType = DSNAddressTypeUTF8
			if verifChoice(2) == 1 {
				ro.OriginalRecipientType = DSNAddressTypeRFC822
			}
			ro.OriginalRecipient = "o+" + string([]byte{d1, d2}) + "@h"
		}
		// RRVS: a concrete corpus of timestamps (to the second)
		switch verifChoice(verifBound(2, 3)) {
		case 1:
			ro.RequireRecipientValidSince = time.Date(2014, 4, 3, 23, 1, 0, 0, time.UTC)
		case 2:
			ro.RequireRecipientValidSince = time.Date(1970, 1, 1, 0, 0, 1, 0, time.UTC)
		}
		c, vc := verifClient("250 2.0.0 ok\r\n", ext)
		cerr = c.Rcpt("r@v", &ro)
		line = vc.out
	}
	verifAssert(cerr == nil, "C14.client-accepts-envelope")
	if cerr != nil {
		return
	}
	in := []byte("EHLO c\r\n")
	if !isMail {
		in = append(in, "MAIL FROM:<s@v>\r\n"...)
	}
	in = append(in, line...)
	vc, _, _ := verifServe(srv, in, io.EOF)
	k := 2
	if !isMail {
		k = 3
	}
	code := verifNthReplyCode(vc.out, k)
	verifObserve("c14t", int(r), utf8srv, isMail, line, code)
	verifAssert(code == 250, "C14.server-accepts-what-the-client-sent")
	if code != 250 {
		return
	}
	if isMail {
		verifReach("C14.trip-mail")
		got := verifLastMailOpts(be)
		verifAssert(got != nil && be.find("Mail", "s@v") >= 0, "C14.trip-mail-called")
		if got == nil {
			return
		}
		verifAssert(got.Size == mo.Size && got.RequireTLS == mo.RequireTLS && got.UTF8 == mo.UTF8 && got.Return == mo.Return && got.EnvelopeID == mo.EnvelopeID, "C14.mail-options-survive")
		verifAssert((got.Auth == nil) == (mo.Auth == nil), "C14.mail-auth-presence-survives")
		if got.Auth != nil && mo.Auth != nil {
			verifAssert(*got.Auth == *mo.Auth, "C14.mail-auth-survives")
		}
	} else {
		verifReach("C14.trip-rcpt")
		got := verifLastRcptOpts(be)
		verifAssert(got != nil && be.find("Rcpt", "r@v") >= 0, "C14.trip-rcpt-called")
		if got == nil {
			return
		}
		verifAssert(got.OriginalRecipientType == ro.OriginalRecipientType && got.OriginalRecipient == ro.OriginalRecipient, "C14.orcpt-survives")
		verifAssert(got.RequireRecipientValidSince.Equal(ro.RequireRecipientValidSince), "C14.rrvs-survives")
		verifAssert(len(got.Notify) == len(ro.Notify), "C14.notify-length-survives")
		if len(got.Notify) == len(ro.Notify) {
			for i := range ro.Notify {
				verifAssert(got.Notify[i] == ro.Notify[i], "C14.notify-survives")
			}
		}
	}
}
