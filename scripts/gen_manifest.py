#!/usr/bin/env python3
"""Regenerates /verif/MANIFEST.json from the table below."""
import json, sys

TECH = "bounded symbolic execution of the real go/ssa of /repo's current tree (own executor over golang.org/x/tools/go/ssa) with z3 deciding every branch and assertion over symbolic inputs, harness choices and scheduler choices; cvc5 re-discharges assertion queries in the thorough tier; counterexamples replayed natively (go test -overlay), or - for TLS-stub harnesses and paths on which goroutines of the code under test ran - confirmed by re-executing the real SSA with inputs and schedule pinned"

import json as _json
_META = _json.load(open("/verif/meta.json"))

def _note(pid):
    n = len(_META.get(pid, {}).get("bounds", []))
    return "Bounds, stubs and assumptions per harness (%d entries) are in /verif/meta.json, copied into the evidence file on every run (coverage.bounds / outside_bounds) and listed in DESIGN.md section 5.0; everything beyond them is outside the claim." % n

# property -> (level text, level note)
_T = {
 "C01": "dataReader.Read on every octet stream up to the stated length (symbolic octets; every combination of network segmentation and backend buffer size; end of input alone or together with the last octets) against a reference unstuffer written from the statement, the same differential through the whole server, two messages in a row on one connection (each read as its own octets whatever became of the other), and a message of short lines under a small line-length limit cut anywhere.",
 "C02": "The real server loop on DATA bodies with a bait command and arbitrary octets around a '.', every backend read / return behaviour (incl. the library's own sentinel errors), size limits around and anywhere inside the message, SMTP and both LMTP flavours; read deadlines expiring in front of every message octet.",
 "C03": "All command histories of the stated length over a 22-command alphabet (incl. chunked transfers) against a reference transaction state machine, from the initial state, from inside an open transaction, one inductive step from an arbitrary state; transaction isolation and greeting equivalence with the real code as its own oracle; the plaintext continuation after a failed STARTTLS handshake judged session object by session object.",
 "C04": "One reply per command, strict reply grammar, own verdict: arbitrary command lines, pipelined against lock-step histories, seven conversations under arbitrary cuts, backend errors of every shape, stale verdicts of aborted deliveries, read failures inside AUTH, inside command lines and inside DATA bodies, connection B after connection A on one server, two messages in a row each sent and ended in every way, short lines behind a chunk in one read.",
 "C05": "BDAT framing through the real handleBdat, delivery goroutine and io.Pipe: refusals whose chunk is a command line, all small chunkings, refusals in mid-transfer, cut and late chunks, size syntax, DATA against BDAT on the same message, and the line limiter around chunks under five segmentations.",
 "C06": "One-step inductive harnesses on the DATA reader's 64-bit budget and on the BDAT running total from an arbitrary state; whole transactions (first and second on a connection, DATA and chunked, each ending in five ways) with N around the message size; SIZE= and BDAT sizes at every integer boundary.",
 "C07": "Every cut offset of DATA and BDAT conversations with arbitrary octets, three kinds of connection end, size limits inside the message, backends that read again after an error, deadlines expiring inside chunks, abandoning commands incl. STARTTLS, huge announced sizes.",
 "C08": "Prefix, closing event (six kinds), buffered suffix through the real loop with session identities; connection ending while Server.Close runs with a slow Logout (scheduler-explored); transfers ending in panics; nothing of one connection seen by the next; failed STARTTLS handshakes and STARTTLS overlapping Server.Close (TLS stub); deadlines expiring inside chunks (one listed known finding: a delivery that begins after Logout).",
 "C09": "AUTH reachability over TLS state x AllowInsecureAuth x backend kind x greeting (TLS states on the stub), exchanges with arbitrary / empty / cancelling / malformed responses, data returned with success, the client's Auth against a scripted peer over up to two (thorough: three) challenge steps with responses of different lengths, AUTH after a failed handshake and across STARTTLS with a failing Logout.",
 "C10": "STARTTLS on the server from four plaintext states with plaintext pipelined behind it (commands, long and unterminated lines), session replacement and where AUTH inside TLS lands; on the client against six peer misbehaviours and four inside-TLS greetings; relative to the TLS stub contract.",
 "C11": "MAIL/RCPT lines: all short strings over an alphabet in three frames, octet mutations of valid paths and parameter templates (one and two hexchars), quoted local parts, several parameters under both map orders, source routes, SIZE at integer boundaries, a second MAIL without a reset in between, letter case of every keyword - against an independent narrow reference grammar.",
 "C12": "The complete configuration space x 15 probes (each in both letter cases) through handleGreet and the handlers against an independent capability list, incl. behaviour after a failed STARTTLS and after AUTH, greeting sequences (HELO/EHLO in every order), and which directions run under a deadline after STARTTLS; the TLS-active part on the stub.",
 "C13": "LMTP final replies for every recipient list over two addresses and every contract-conforming script of SetStatus calls, return value, panic, early failure; DATA and BDAT; pre-empted delivery goroutine; three messages in a row; recipients differing only in case; the LMTP server against the SMTP server on the same message.",
 "C14": "xtext and utf-8-addr codecs on ONE symbolic Unicode scalar (a handful of paths decide all scalar values) and on short strings; the whole option struct's trip client line -> real server -> backend, incl. look-alike escapes, non-ASCII AUTH identities, options across calls and across a refused call retried.",
 "C15": "Client.Mail/Rcpt/Hello/Verify with one hostile argument of arbitrary octets at a time and a symbolic capability map; state after a refused call (incl. what the next Mail/Rcpt writes, on the same or another client); Auth with a hostile mechanism name; capabilities after a real re-greeting (subset, bare, refused with HELO fallback).",
 "C16": "Client DATA writer and real server composed: arbitrary bodies in three Write calls, the wire cut at arbitrary offsets on the server side, recipient lists with repeats, per-recipient verdicts with replies in one or many reads, a follow-up command, two messages through one client connection, SendMail against the explicit calls.",
 "C17": "Backend errors from the four callbacks with symbolic reply code, enhanced code set / unset / absent and arbitrary text octets: strict grammar on the wire, then through the real client; look-alike codes, two refusals in a row, refusals of DATA and chunked messages following an earlier message that ended in any way, reply stream under arbitrary cuts.",
 "C18": "LMTP client against a scripted peer over consecutive transactions with arbitrary accept / refuse patterns, verdicts (code, enhanced code and one- or two-line text of each recipient's own reply) and ways of opening the writer, replies in one or many reads; a transaction after an arbitrary earlier one against the same transaction on a fresh client; recipients that are equal or differ only in letter case.",
 "C19": "Arbitrary command lines (7-bit, one arbitrary scalar, one arbitrary high octet); lines around MaxLineLength at six positions incl. around BDAT chunks and behind a SASL exchange under three segmentations; the limiter as an inductive step for every limit; the error threshold under mixed malformed input and across STARTTLS; BDAT in every state; grammar-derived lines for every argument parser with any one position replaced by any octet, deleted or doubled.",
 "C20": "Serve over arbitrary Accept result sequences followed by Close or Shutdown on the engine's cooperative scheduler (deadlock = all goroutines blocked, leak = goroutines alive), a stop call racing with Serve itself or issued from inside NewSession, and connection scenarios (incl. STARTTLS overlapping Server.Close, two chunked messages in a row) under a vector-clock happens-before monitor over go-smtp's own loads and stores (incl. append's element writes and sync.WaitGroup's Add-before-Wait rule); unlisted races are additionally looked for with the Go race detector on the natively compiled harness. A bounded check of the happens-before discipline on explored schedules, not a race-freedom proof.",
}
CLAIMS = {k: (v, _note(k)) for k, v in _T.items()}
NA = {}

def main():
    props = [json.loads(l)["id"] for l in open("/verif/properties.jsonl")]
    checks = []
    na = []
    for pid in props:
        if pid in CLAIMS:
            text, note = CLAIMS[pid]
            checks.append({
                "property_id": pid,
                "quick_cmd": "/verif/scripts/check.sh %s quick" % pid,
                "thorough_cmd": "/verif/scripts/check.sh %s thorough" % pid,
                "evidence_file": "/verif/evidence/%s.json" % pid,
                "replay_cmd_template": "/verif/bin/check --replay {path}",
                "engine": "gosym",
                "level_claimed": {"category": "model_checking", "text": text, "design_ref": "DESIGN.md section 5 (%s)" % pid},
                "level_note": note,
                "technique": TECH,
            })
        else:
            na.append({"property_id": pid, "reason": NA.get(pid, "check not built yet (work in progress; see DESIGN.md section 8)")})
    m = {
        "version": 1,
        "setup_cmd": "/verif/scripts/setup.sh",
        "hooks": {
            "guard": "verif",
            "enable": "no hooks: harness files are injected as /repo/zz_verif_*.go through go/packages and go test overlays; nothing is committed to /repo for them",
            "baseline_off_cmd": "/verif/scripts/baseline_off.sh",
            "source_commits": [],
            "add_only": True,
        },
        "engines": [{
            "name": "gosym",
            "path": "/verif/engine",
            "serves_properties": sorted(CLAIMS.keys()),
            "kind_free_text": "symbolic executor over go/ssa (x/tools v0.29.0) written for this task: bit-vector terms, solver-decided forking by re-execution, cooperative goroutine scheduler, z3 4.8.12 via one persistent process per worker",
        }],
        "checks": checks,
        "not_applicable": na,
        "notes": "exit 0 = held within bounds (KNOWN-FINDING lines allowed), 1 = confirmed VIOLATION (native replay, or pinned re-execution where the native scheduler / real TLS cannot be forced), 2 = inconclusive (never success). See DESIGN.md.",
    }
    json.dump(m, open("/verif/MANIFEST.json", "w"), indent=1)
    print("wrote MANIFEST.json: %d checks, %d not applicable" % (len(checks), len(na)))

main()
