package smtp

import (
	"io"
	"strconv"
)

type vstatus struct {
	rcpt string
	code int // 0 = accepted (nil status)
	enh  EnhancedCode
	msg  string
}

// verif_C18_script: an LMTP client against a scripted peer. One to T
// consecutive transactions on the same connection, one or two recipients
// each, every recipient accepted or refused at RCPT time, every accepted one
// with its own final verdict. With a callback: it fires exactly once per
// recipient accepted in *that* transaction, in order, with that recipient's
// verdict, and Close returns having consumed exactly those replies. Without a
// callback: a refusal after DATA surfaces as Close's error.
func verif_C18_script() {
	T := verifBound(2, 3)
	nt := nondetInt(1, T)
	c, vc := verifClient("", nil)
	c.lmtp = true
	segmented := nondetBool()
	for t := 0; t < nt; t++ {
		// chosen per transaction: a later transaction must not inherit the
		// earlier one's callback
		cbMode := verifChoice(3) // 0 LMTPData with a callback, 1 Data(), 2 LMTPData(nil)
		withCb := cbMode == 0
		nr := nondetInt(1, verifBound(2, 3))
		script := "250 2.0.0 ok\r\n"
		var want []vstatus
		accepted := make([]bool, nr)
		anyRefusal := false
		anyAccepted := false
		for i := 0; i < nr; i++ {
			accepted[i] = nondetBool()
			if accepted[i] {
				script += "250 2.1.5 ok\r\n"
				anyAccepted = true
			} else {
				script += "550 5.1.1 no such user\r\n"
			}
		}
		assume(anyAccepted)
		script += "354 go\r\n"
		for i := 0; i < nr; i++ {
			if !accepted[i] {
				continue
			}
			addr := "r" + strconv.Itoa(t) + strconv.Itoa(i) + "@v"
			if nondetBool() {
				script += "250 2.0.0 <" + addr + "> delivered\r\n"
				want = append(want, vstatus{rcpt: addr})
			} else {
				code := []int{450, 550, 552}[verifChoice(3)]
				enh := strconv.Itoa(code/100) + ".2.0"
				ec := EnhancedCode{code / 100, 2, 0}
				if code == 552 {
					enh = "5.3.4" // what a server says about an over-size message
					ec = EnhancedCode{5, 3, 4}
				}
				// the verdict's own text: one line, or two lines (RFC 2034
				// repeats the enhanced code on every line), each naming the
				// transaction and recipient it belongs to
				tag := strconv.Itoa(t) + strconv.Itoa(i)
				if nondetBool() {
					script += strconv.Itoa(code) + " " + enh + " <" + addr + "> refused " + tag + "\r\n"
					want = append(want, vstatus{addr, code, ec, "<" + addr + "> refused " + tag})
				} else {
					script += strconv.Itoa(code) + "-" + enh + " <" + addr + "> refused " + tag + "\r\n" +
						strconv.Itoa(code) + " " + enh + " second line " + tag + "\r\n"
					want = append(want, vstatus{addr, code, ec, "<" + addr + "> refused " + tag + "\nsecond line " + tag})
				}
				anyRefusal = true
			}
		}
		start := len(vc.in)
		vc.in = append(vc.in, script...)
		if segmented {
			// every reply line arrives in a network read of its own
			for i := start; i < len(vc.in); i++ {
				if vc.in[i] == '\n' {
					vc.cuts = append(vc.cuts, i+1)
				}
			}
		}
		verifAssert(c.Mail("s"+strconv.Itoa(t)+"@v", nil) == nil, "C18.mail-accepted")
		for i := 0; i < nr; i++ {
			addr := "r" + strconv.Itoa(t) + strconv.Itoa(i) + "@v"
			err := c.Rcpt(addr, nil)
			verifAssert((err == nil) == accepted[i], "C18.rcpt-verdict")
		}
		var got []vstatus
		var w io.WriteCloser
		var err error
		if withCb {
			w, err = c.LMTPData(func(rcpt string, st *SMTPError) {
				v := vstatus{rcpt: rcpt}
				if st != nil {
					v = vstatus{rcpt, st.Code, st.EnhancedCode, st.Message}
				}
				got = append(got, v)
			})
		} else if cbMode == 1 {
			w, err = c.Data()
		} else {
			w, err = c.LMTPData(nil)
		}
		verifAssert(err == nil, "C18.data-started")
		if err != nil {
			return
		}
		w.Write([]byte("x\r\n"))
		cerr := w.Close()
		verifObserve("c18", t, nr, withCb, len(want), len(got), cerr == nil, vc.pos, len(vc.in))
		verifAssert(vc.pos == len(vc.in), "C18.close-consumes-exactly-this-transactions-replies")
		if withCb {
			verifReach("C18.with-callback")
			verifAssert(cerr == nil, "C18.close-ok-with-callback")
			verifAssert(len(got) == len(want), "C18.one-callback-per-accepted-recipient")
			if len(got) == len(want) {
				for i := range got {
					verifAssert(got[i].rcpt == want[i].rcpt && got[i].code == want[i].code, "C18.callback-carries-own-recipient-and-verdict")
					verifAssert(got[i].enh == want[i].enh && got[i].msg == want[i].msg, "C18.callback-carries-own-enhanced-code-and-text")
				}
			}
		} else {
			verifReach("C18.without-callback")
			if anyRefusal {
				verifAssert(cerr != nil, "C18.refusal-not-lost-without-callback")
				// the error is the first refused recipient's own verdict
				if se, ok := cerr.(*SMTPError); ok {
					for _, wv := range want {
						if wv.code != 0 {
							verifAssert(se.Code == wv.code && se.EnhancedCode == wv.enh && se.Message == wv.msg, "C18.close-error-is-first-refusal")
							break
						}
					}
				} else {
					verifAssert(false, "C18.close-error-is-an-smtp-error")
				}
			} else {
				verifAssert(cerr == nil, "C18.close-ok-without-callback")
			}
		}
		if cerr != nil && withCb {
			return
		}
	}
}

// verif_C18_isolation: "every transaction", with the real client as its own
// oracle. A transaction T2 (one or two recipients, each with its own verdict,
// 2 arbitrary body octets, any of the three ways to open the data writer) is
// run (A) on a client that has been through a first transaction T1 ending in
// one of eight ways and (B) on a fresh client. What T2 writes to the wire, what
// each of its calls returns, and which status callbacks run must be identical.
func verif_C18_isolation() {
	lmtp := nondetBool()
	t1 := verifChoice(8)
	m1, m2 := 1, 1
	if lmtp {
		m1, m2 = verifChoice(3), verifChoice(3)
	}
	nr := nondetInt(1, 2)
	x, y := nondetByte(), nondetByte()
	assume(x < 0x80 && y < 0x80 && x != '\r' && y != '\r')
	ok1, ok2 := nondetBool(), nondetBool()

	type obs struct {
		wire  []byte
		rets  []int
		cbs   []vstatus
		extra int
	}
	code := func(err error) int {
		if err == nil {
			return 0
		}
		if se, ok := err.(*SMTPError); ok {
			return se.Code
		}
		return -1
	}
	open := func(c *Client, mode int, o *obs) (io.WriteCloser, error) {
		switch mode {
		case 0:
			return c.LMTPData(func(rcpt string, st *SMTPError) {
				k := 0
				if st != nil {
					k = st.Code
				}
				o.cbs = append(o.cbs, vstatus{rcpt: rcpt, code: k})
			})
		case 2:
			return c.LMTPData(nil)
		}
		return c.Data()
	}
	final := func(n int, ok bool) string {
		s := ""
		if !lmtp {
			n = 1
		}
		for i := 0; i < n; i++ {
			if ok {
				s += "250 2.0.0 ok\r\n"
			} else {
				s += "554 5.3.0 no\r\n"
			}
		}
		return s
	}
	first := func(c *Client, vc *vconn) {
		var o obs
		feed := func(s string) { vc.in = append(vc.in, s...) }
		switch t1 {
		case 0, 1: // complete, accepted / refused
			feed("250 2.0.0 ok\r\n250 2.1.5 ok\r\n354 go\r\n" + final(1, t1 == 0))
			c.Mail("a@v", nil)
			c.Rcpt("b@v", nil)
			if w, err := open(c, m1, &o); err == nil {
				w.Write([]byte("hi\r\n"))
				w.Close()
			}
		case 2: // MAIL refused
			feed("550 5.1.0 no\r\n")
			c.Mail("a@v", nil)
		case 3: // RCPT refused, RSET
			feed("250 2.0.0 ok\r\n550 5.1.1 no\r\n250 2.0.0 ok\r\n")
			c.Mail("a@v", nil)
			c.Rcpt("b@v", nil)
			c.Reset()
		case 4: // DATA refused
			feed("250 2.0.0 ok\r\n250 2.1.5 ok\r\n554 5.3.0 no\r\n")
			c.Mail("a@v", nil)
			c.Rcpt("b@v", nil)
			open(c, m1, &o)
		case 5: // two recipients, RSET
			feed("250 2.0.0 ok\r\n250 2.1.5 ok\r\n250 2.1.5 ok\r\n250 2.0.0 ok\r\n")
			c.Mail("a@v", nil)
			c.Rcpt("b@v", nil)
			c.Rcpt("c@v", nil)
			c.Reset()
		case 6: // two recipients, mixed verdicts
			fin := "250 2.0.0 ok\r\n"
			if lmtp {
				fin += "550 5.2.0 no\r\n"
			}
			feed("250 2.0.0 ok\r\n250 2.1.5 ok\r\n250 2.1.5 ok\r\n354 go\r\n" + fin)
			c.Mail("a@v", nil)
			c.Rcpt("b@v", nil)
			c.Rcpt("c@v", nil)
			if w, err := open(c, m1, &o); err == nil {
				w.Write([]byte("hi\r\n"))
				w.Close()
			}
		case 7: // writer closed twice
			feed("250 2.0.0 ok\r\n250 2.1.5 ok\r\n354 go\r\n" + final(1, false))
			c.Mail("a@v", nil)
			c.Rcpt("b@v", nil)
			if w, err := open(c, m1, &o); err == nil {
				w.Close()
				w.Close()
			}
		}
	}
	run := func(withFirst bool) obs {
		var o obs
		c, vc := verifClient("", nil)
		c.lmtp = lmtp
		if withFirst {
			first(c, vc)
			// whatever T1 left unread belongs to T1
			vc.pos = len(vc.in)
			// Reset deliberately forgets the greeting ("allow custom HELLO
			// again"): greet again so that T2 starts from a greeted client
			if !c.didHello {
				vc.in = append(vc.in, "250 again\r\n"...)
				c.hello()
				vc.pos = len(vc.in)
			}
		}
		mark := len(vc.out)
		script := "250 2.0.0 ok\r\n250 2.1.5 ok\r\n"
		if nr == 2 {
			script += "250 2.1.5 ok\r\n"
		}
		script += "354 go\r\n"
		if lmtp {
			script += final(1, ok1)
			if nr == 2 {
				script += final(1, ok2)
			}
		} else {
			script += final(1, ok1)
		}
		vc.in = append(vc.in, script...)
		o.rets = append(o.rets, code(c.Mail("s@v", nil)))
		o.rets = append(o.rets, code(c.Rcpt("r1@v", nil)))
		if nr == 2 {
			o.rets = append(o.rets, code(c.Rcpt("r2@v", nil)))
		}
		w, err := open(c, m2, &o)
		o.rets = append(o.rets, code(err))
		if err == nil {
			w.Write([]byte{x, y, '\r', '\n'})
			o.rets = append(o.rets, code(w.Close()))
		}
		o.wire = vc.out[mark:]
		o.extra = len(vc.in) - vc.pos
		return o
	}
	a := run(true)
	b := run(false)
	verifObserve("c18iso", lmtp, t1, m1, m2, nr, x, y, ok1, ok2, len(a.wire), len(b.wire), len(a.cbs), len(b.cbs), a.extra, b.extra)
	verifAssert(string(a.wire) == string(b.wire), "C18.isolation-same-wire-octets")
	verifAssert(len(a.rets) == len(b.rets), "C18.isolation-same-calls")
	if len(a.rets) == len(b.rets) {
		for i := range a.rets {
			verifAssert(a.rets[i] == b.rets[i], "C18.isolation-same-results")
		}
	}
	verifAssert(len(a.cbs) == len(b.cbs), "C18.isolation-same-callback-count")
	if len(a.cbs) == len(b.cbs) {
		for i := range a.cbs {
			verifAssert(a.cbs[i] == b.cbs[i], "C18.isolation-same-callbacks")
		}
	}
	verifAssert(a.extra == b.extra && b.extra == 0, "C18.isolation-consumes-exactly-its-replies")
	verifReach("C18.isolation-end")
}

// verif_C18_same_mailbox: two recipients of one LMTP transaction that are the
// same string, or differ only in the letter case of the local part or of the
// domain. Each Rcpt call the caller made goes out as its own RCPT line and -
// when accepted - gets its own status callback, in order, with its own verdict
// (the server may well treat them as two mailboxes; that is not the client's
// call).
func verif_C18_same_mailbox() {
	pair := [][]string{{"box@v", "box@v"}, {"Box@v", "box@v"}, {"u@Example.ORG", "u@example.org"}}[verifChoice(3)]
	ok := []bool{nondetBool(), nondetBool()}
	script := "250 2.0.0 ok\r\n250 2.1.5 ok\r\n250 2.1.5 ok\r\n354 go\r\n"
	var want []vstatus
	for i := 0; i < 2; i++ {
		if ok[i] {
			script += "250 2.0.0 <" + pair[i] + "> delivered\r\n"
			want = append(want, vstatus{rcpt: pair[i]})
		} else {
			script += "550 5.1.1 <" + pair[i] + "> no mailbox " + strconv.Itoa(i) + "\r\n"
			want = append(want, vstatus{pair[i], 550, EnhancedCode{5, 1, 1}, "<" + pair[i] + "> no mailbox " + strconv.Itoa(i)})
		}
	}
	c, vc := verifClient(script, nil)
	c.lmtp = true
	verifAssert(c.Mail("s@v", nil) == nil, "C18.same-mailbox-mail")
	verifAssert(c.Rcpt(pair[0], nil) == nil && c.Rcpt(pair[1], nil) == nil, "C18.same-mailbox-both-rcpt-accepted")
	var got []vstatus
	withCb := nondetBool()
	var w io.WriteCloser
	var err error
	if withCb {
		w, err = c.LMTPData(func(rcpt string, st *SMTPError) {
			v := vstatus{rcpt: rcpt}
			if st != nil {
				v = vstatus{rcpt, st.Code, st.EnhancedCode, st.Message}
			}
			got = append(got, v)
		})
	} else {
		w, err = c.Data()
	}
	verifAssert(err == nil, "C18.same-mailbox-data-started")
	if err != nil {
		return
	}
	w.Write([]byte("x\r\n"))
	cerr := w.Close()
	lines := verifSplitLines(vc.out)
	n := 0
	for _, l := range lines {
		if len(l) > 8 && l[:8] == "RCPT TO:" {
			verifAssert(n < 2 && l == "RCPT TO:<"+pair[n]+">", "C18.same-mailbox-one-rcpt-line-per-call")
			n++
		}
	}
	verifObserve("c18same", pair[0], pair[1], ok[0], ok[1], withCb, n, len(got), cerr == nil)
	verifAssert(n == 2, "C18.same-mailbox-one-rcpt-line-per-call")
	verifAssert(vc.pos == len(vc.in), "C18.same-mailbox-close-consumes-both-replies")
	if withCb {
		verifAssert(cerr == nil && len(got) == 2, "C18.same-mailbox-one-callback-per-call")
		if len(got) == 2 {
			verifAssert(got[0] == want[0] && got[1] == want[1], "C18.same-mailbox-own-verdict-in-order")
		}
	} else {
		verifAssert((cerr == nil) == (ok[0] && ok[1]), "C18.same-mailbox-refusal-not-lost")
	}
	verifReach("C18.same-mailbox-end")
}
