package exec

import (
	"go/types"
	"regexp/syntax"
	"unicode/utf8"

	"verif/gosym/sym"
)

// regexp intrinsics. The pattern is whatever the *current source* passes to
// regexp.MustCompile (a concrete string read during the interpreted package
// initialiser); it is compiled with the real regexp/syntax and executed by a
// leftmost-first backtracking matcher in which every "rune in class?" test on
// symbolic input is a solver-decided branch. So a mutated pattern changes the
// encoding.

type vregexp struct {
	pat  string
	prog *syntax.Prog
	ptr  *value
}

func init() {
	reg("regexp.MustCompile", func(ex *Exec, fr *frame, a []value) value {
		pat, ok := a[0].(string)
		if !ok {
			ex.inconclusive("regexp.MustCompile with a symbolic pattern")
		}
		re, ok := ex.regexps[pat]
		if !ok {
			r, err := syntax.Parse(pat, syntax.Perl)
			if err != nil {
				panic(targetPanic{iface{ex.prog.runtimeErrorString, "regexp: Compile(" + pat + "): " + err.Error()}})
			}
			p, err := syntax.Compile(r.Simplify())
			if err != nil {
				panic(targetPanic{iface{ex.prog.runtimeErrorString, "regexp: Compile(" + pat + "): " + err.Error()}})
			}
			re = &vregexp{pat: pat, prog: p}
			ex.regexps[pat] = re
		}
		// represent *regexp.Regexp as a pointer to a zero struct with the
		// compiled program in the side table
		if re.ptr == nil {
			rp := ex.prog.SSA.ImportedPackage("regexp")
			var cell value = zero(rp.Type("Regexp").Type())
			re.ptr = &cell
			ex.sideTabPersist(re.ptr, re)
		}
		return re.ptr
	})
	reg("(*regexp.Regexp).ReplaceAllStringFunc", func(ex *Exec, fr *frame, a []value) value {
		re := ex.regexpOf(a[0].(*value))
		src := ex.strOctets(a[1])
		repl := a[2]
		var buf []value
		lastMatchEnd, searchPos := 0, 0
		for searchPos <= len(src) {
			ms, me, ok := ex.reFind(re, src, searchPos)
			if !ok {
				break
			}
			buf = append(buf, src[lastMatchEnd:ms]...)
			if me > lastMatchEnd || ms == 0 {
				r := ex.call(fr, repl, []value{mkStr(src[ms:me])})
				buf = append(buf, ex.strOctets(r)...)
			}
			lastMatchEnd = me
			_, width := ex.decodeRune(src, searchPos)
			if searchPos+width > me {
				searchPos += width
			} else if searchPos+1 > me {
				searchPos++
			} else {
				searchPos = me
			}
		}
		buf = append(buf, src[lastMatchEnd:]...)
		return mkStr(buf)
	})
	reg("(*regexp.Regexp).MatchString", func(ex *Exec, fr *frame, a []value) value {
		re := ex.regexpOf(a[0].(*value))
		_, _, ok := ex.reFind(re, ex.strOctets(a[1]), 0)
		return ok
	})
}

func (ex *Exec) sideTabPersist(p *value, v interface{}) {
	if ex.persistSideTab == nil {
		ex.persistSideTab = map[*value]interface{}{}
	}
	ex.persistSideTab[p] = v
}

func (ex *Exec) regexpOf(p *value) *vregexp {
	if p == nil {
		ex.rtPanic("invalid memory address or nil pointer dereference")
	}
	if v, ok := ex.persistSideTab[p]; ok {
		return v.(*vregexp)
	}
	ex.inconclusive("regexp value not created by regexp.MustCompile")
	return nil
}

// reFind finds the leftmost-first match at or after pos.
func (ex *Exec) reFind(re *vregexp, src []value, pos int) (int, int, bool) {
	for start := pos; start <= len(src); {
		if end, ok := ex.reMatchAt(re.prog, re.prog.Start, src, start, 0); ok {
			return start, end, true
		}
		if start >= len(src) {
			break
		}
		_, w := ex.decodeRune(src, start)
		if w == 0 {
			w = 1
		}
		start += w
	}
	return 0, 0, false
}

// reMatchAt: backtracking over the compiled program, priority order.
func (ex *Exec) reMatchAt(p *syntax.Prog, pc int, src []value, i int, depth int) (int, bool) {
	if depth > 10000 {
		ex.inconclusive("regexp backtracking depth exceeded")
	}
	for {
		in := &p.Inst[pc]
		switch in.Op {
		case syntax.InstFail:
			return 0, false
		case syntax.InstMatch:
			return i, true
		case syntax.InstNop, syntax.InstCapture:
			pc = int(in.Out)
		case syntax.InstAlt, syntax.InstAltMatch:
			if end, ok := ex.reMatchAt(p, int(in.Out), src, i, depth+1); ok {
				return end, true
			}
			pc = int(in.Arg)
		case syntax.InstEmptyWidth:
			op := syntax.EmptyOp(in.Arg)
			okk := true
			if op&syntax.EmptyBeginText != 0 && i != 0 {
				okk = false
			}
			if op&syntax.EmptyEndText != 0 && i != len(src) {
				okk = false
			}
			if op&^(syntax.EmptyBeginText|syntax.EmptyEndText) != 0 {
				ex.inconclusive("regexp: unsupported empty-width assertion")
			}
			if !okk {
				return 0, false
			}
			pc = int(in.Out)
		case syntax.InstRune, syntax.InstRune1, syntax.InstRuneAny, syntax.InstRuneAnyNotNL:
			if i >= len(src) {
				return 0, false
			}
			r, w := ex.decodeRune(src, i)
			if !ex.branch(ex.reRuneMatches(in, r)) {
				return 0, false
			}
			i += w
			pc = int(in.Out)
		default:
			ex.inconclusive("regexp: unsupported instruction")
		}
	}
}

func (ex *Exec) reRuneMatches(in *syntax.Inst, r value) value {
	if u, ok := r.(uint64); ok {
		rr := rune(int32(uint32(u)))
		switch in.Op {
		case syntax.InstRuneAny:
			return true
		case syntax.InstRuneAnyNotNL:
			return rr != '\n'
		}
		return in.MatchRune(rr)
	}
	c := ex.ctx
	t := r.(*sym.Term)
	switch in.Op {
	case syntax.InstRuneAny:
		return true
	case syntax.InstRuneAnyNotNL:
		return norm(c.Not(c.Eq(t, c.BV('\n', 32))))
	}
	if syntax.Flags(in.Arg)&syntax.FoldCase != 0 {
		ex.inconclusive("regexp: case-folded class on symbolic input")
	}
	rs := in.Rune
	if len(rs) == 1 {
		return norm(c.Eq(t, c.BV(uint64(uint32(rs[0])), 32)))
	}
	acc := c.False
	for k := 0; k+1 < len(rs); k += 2 {
		lo, hi := uint64(uint32(rs[k])), uint64(uint32(rs[k+1]))
		if lo == hi {
			acc = c.Or(acc, c.Eq(t, c.BV(lo, 32)))
		} else {
			acc = c.Or(acc, c.And(c.Cmp(sym.OpUle, c.BV(lo, 32), t), c.Cmp(sym.OpUle, t, c.BV(hi, 32))))
		}
	}
	return norm(acc)
}

var _ = utf8.RuneError
var _ types.Type
