package smtp

import "io"

// Smoke harness (not a property): a concrete conversation through the real
// server loop; exercises bufio/textproto/fmt boundary code in the executor.
func verif_X00_smoke() {
	be := &vbackend{}
	s, _ := verifServer(be)
	in := "EHLO client.example\r\nMAIL FROM:<a@b.c>\r\nRCPT TO:<d@e.f>\r\nDATA\r\nhello\r\n..dot\r\n.\r\nNOOP\r\nQUIT\r\n"
	vc, _, err := verifServe(s, []byte(in), io.EOF)
	verifObserve("out", vc.out, err == nil)
	verifObserve("trace", len(be.trace), be.count("Mail"), be.count("Rcpt"), be.count("Data"), be.count("Logout"))
	reps, ok := verifParseReplies(vc.out)
	verifAssert(ok, "X00.replies-wellformed")
	verifObserve("nreps", len(reps))
	verifAssert(len(reps) == 8, "X00.reply-count")
	verifReach("X00.end")
}
